#!/bin/bash
# Build the driver against libjwt built from $VERIF_REPO's working tree.
# usage: build_drv.sh <variant> -> prints path of the driver binary
set -e
VARIANT=${1:-asan}
VERIF=$(cd "$(dirname "$0")/.." && pwd)
DIR=$("$VERIF/bin/build.sh" "$VARIANT")
REPO=${VERIF_REPO:-/repo}
DRV="$DIR/jwtdrv"
SRC="$VERIF/harness/jwtdrv.c"
if [ -x "$DRV" ] && [ "$DRV" -nt "$SRC" ] && [ "$DRV" -nt "$DIR/libjwt.a" ]; then echo "$DRV"; exit 0; fi
case "$VARIANT" in
  asan)  SAN="-fsanitize=address,undefined -fno-sanitize-recover=undefined -fno-omit-frame-pointer" ;;
  tsan)  SAN="-fsanitize=thread -fno-omit-frame-pointer" ;;
  plain) SAN="" ;;
esac
clang -O1 -g $SAN -Wall -Wno-unused-function -DJWT_STATIC_DEFINE -I"$REPO/include" -I"$DIR" \
  "$SRC" "$DIR/libjwt.a" -o "$DRV.tmp.$$" $(pkg-config --libs jansson openssl gnutls) -lpthread >&2
mv "$DRV.tmp.$$" "$DRV"
echo "$DRV"
