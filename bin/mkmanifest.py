#!/usr/bin/env python3
"""Regenerate MANIFEST.json from bin/vprops.py (claimed checks) and properties.jsonl."""
import json, os, sys
sys.path.insert(0, os.path.dirname(os.path.abspath(__file__)))
import vprops
V = os.path.dirname(os.path.dirname(os.path.abspath(__file__)))
props = [json.loads(l)["id"] for l in open(os.path.join(V, "properties.jsonl"))]
checks, na = [], []
for p in props:
    P = vprops.PROPS.get(p)
    if not P or P.get("unclaimed"):
        na.append(dict(property_id=p, reason=(P or {}).get("unclaimed") or vprops.NOT_YET.get(p, "check not built yet in this session; not claimed")))
        continue
    checks.append(dict(
        property_id=p,
        quick_cmd="bin/check %s --tier quick" % p,
        thorough_cmd="bin/check %s --tier thorough" % p,
        evidence_file="evidence/%s.json" % p,
        replay_cmd_template="bin/check replay {path}",
        engine="tlc",
        level_claimed=dict(category=P["level"], text=P["level_text"], design_ref=P.get("design_ref", "DESIGN.md section 7")),
        level_note=P["level_note"],
        technique=P.get("technique", "explicit TLA+ spec (spec/LibJWT.tla) model-checked by TLC; TLC-generated scripts replayed into libjwt; recorded traces validated by TLC against spec/Trace.tla"),
    ))
m = dict(
    version=1,
    setup_cmd="bin/setup.sh",
    hooks=dict(guard="LIBJWT_VERIF",
               enable="bin/build.sh configures /repo's working tree out of tree with CMAKE_C_FLAGS containing -DLIBJWT_VERIF (plus sanitizer flags)",
               baseline_off_cmd="bin/baseline_off.sh", source_commits=vprops.HOOK_COMMITS, add_only=True),
    engines=[dict(name="tlc", path="spec/", serves_properties=[c["property_id"] for c in checks],
                  kind_free_text="explicit TLA+ specification (spec/LibJWT.tla and helper modules); bounded instances spec/mc/MC_Cxx.tla are model-checked by TLC and print the specification's behaviours as scripts; harness/jwtdrv.c replays them into libjwt built from /repo's working tree and records one event per call; TLC validates every recorded trace against spec/Trace.tla")],
    checks=checks, not_applicable=na,
    notes="See DESIGN.md. Exit codes of bin/check: 0 held, 1 violation (VIOLATION lines), 2 infrastructure failure without verdict.")
json.dump(m, open(os.path.join(V, "MANIFEST.json"), "w"), indent=1)
print("claimed:", [c["property_id"] for c in checks])
