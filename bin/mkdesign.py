#!/usr/bin/env python3
"""Regenerate the measured tables of DESIGN.md (between the BEGIN/END markers) from
evidence/*.json (last quick run on the unchanged tree) and an optional thorough summary
(evidence_thorough.json, written by `bin/runall thorough` through --summary)."""
import glob, json, os, re, sys
V = os.path.dirname(os.path.dirname(os.path.abspath(__file__)))
sys.path.insert(0, os.path.join(V, "bin"))
import vprops

def table():
    th = {}
    p = os.path.join(V, "thorough_summary.json")
    if os.path.exists(p):
        th = json.load(open(p))
    out = ["| id | level | stages (cases) | TLC states | traces validated | events judged | quick wall | thorough: cases / events / wall |",
           "|---|---|---|---|---|---|---|---|"]
    for f in sorted(glob.glob(os.path.join(V, "evidence", "C*.json"))):
        d = json.load(open(f)); c = d["coverage"]
        st = ", ".join("%s %d" % (s["stage"], s["cases"]) if s["kind"] != "proof" else "%s (Apalache)" % s["stage"] for s in c["stages"])
        t = th.get(d["property_id"])
        tt = "%d / %d / %d s" % (t["cases"], t["judged"], t["wall"]) if t else "-"
        out.append("| %s | %s | %s | %s | %d | %d | %d s | %s |" % (d["property_id"], d["level"], st, c.get("states", "-"),
                   c["traces_validated_against_impl"], c["evaluations"], round(d["wall_s"]), tt))
    return "\n".join(out)

def absorb(log):
    """thorough_summary.json from the one-line summaries of `bin/runall thorough`"""
    th = {}
    p = os.path.join(V, "thorough_summary.json")
    if os.path.exists(p):
        th = json.load(open(p))      # a log of some checks only updates those
    for l in open(log):
        m = re.match(r"(C\d+) rc=(\d+) (\d+)s (\d+) viol (\d+) known \| C\d+ thorough: (\d+) cases, (\d+) judged events", l)
        if m:
            th[m.group(1)] = dict(rc=int(m.group(2)), wall=int(m.group(3)), violations=int(m.group(4)), known=int(m.group(5)),
                                  cases=int(m.group(6)), judged=int(m.group(7)))
    json.dump(th, open(os.path.join(V, "thorough_summary.json"), "w"), indent=1, sort_keys=True)

def main():
    if len(sys.argv) > 2 and sys.argv[1] == "--thorough-log":
        absorb(sys.argv[2])
    p = os.path.join(V, "DESIGN.md"); s = open(p).read()
    b, e = "<!-- BEGIN measured -->", "<!-- END measured -->"
    if b not in s:
        print("markers missing"); return 1
    s = s[:s.index(b) + len(b)] + "\n" + table() + "\n" + s[s.index(e):]
    open(p, "w").write(s)
    return 0
if __name__ == "__main__":
    sys.exit(main())
