"""Engine shared by all checks: TLC runs, script extraction, driver runs,
trace validation, confirmation, known findings, evidence.

No judging happens here: scripts come from TLC (or from seeded generators in
vgen.py), verdicts come from TLC evaluating spec/Trace.tla on recorded traces.
"""
import concurrent.futures as cf
import hashlib
import json
import os
import re
import shutil
import subprocess
import sys
import time

VERIF = os.path.dirname(os.path.dirname(os.path.abspath(__file__)))
WORK = os.environ.get("VERIF_WORK", os.path.join(VERIF, ".work"))
SPEC = os.path.join(VERIF, "spec")
CP = "/opt/veriftools/tla/tla2tools.jar:/opt/veriftools/tla/CommunityModules-deps.jar"
NCPU = min(16, os.cpu_count() or 4)


class Infra(Exception):
    """Infrastructure failure: exit 2, never a VIOLATION."""


def log(*a):
    print(*a, file=sys.stderr, flush=True)


def sh(cmd, **kw):
    return subprocess.run(cmd, **kw)


# ------------------------------------------------------------------ builds
def build_driver(variant="asan"):
    r = sh([os.path.join(VERIF, "bin/build_drv.sh"), variant], capture_output=True, text=True)
    if r.returncode != 0:
        raise Infra("build failed:\n" + r.stderr[-3000:])
    return r.stdout.strip().splitlines()[-1]


def build_dir(variant="asan"):
    r = sh([os.path.join(VERIF, "bin/build.sh"), variant], capture_output=True, text=True)
    if r.returncode != 0:
        raise Infra("build failed:\n" + r.stderr[-3000:])
    return r.stdout.strip().splitlines()[-1]


# --------------------------------------------------------------------- TLC
def java_tlc(args, cwd, env=None, xmx="4g", timeout=3600, stdout=None, props=()):
    cmd = ["java", "-XX:+UseParallelGC", "-Xmx" + xmx] + list(props) + ["-cp", CP, "tlc2.TLC"] + args
    e = dict(os.environ)
    if env:
        e.update(env)
    try:
        if stdout is not None:
            with open(stdout, "w") as f:
                r = sh(cmd, cwd=cwd, env=e, stdout=f, stderr=subprocess.STDOUT, timeout=timeout)
            return r.returncode, None
        r = sh(cmd, cwd=cwd, env=e, capture_output=True, text=True, timeout=timeout)
        return r.returncode, r.stdout + r.stderr
    except subprocess.TimeoutExpired:
        raise Infra("TLC timed out: " + " ".join(args))


RE_STATES = re.compile(r"(\d+) states generated, (\d+) distinct states found")


def unescape_tla(s):
    # TLA+ string literal escapes coincide with JSON's for what ToJson emits
    return json.loads('"' + s + '"')


def iter_marked(path, marker):
    """Yield decoded JSON payloads of lines <<"MARKER", "...json...">> in a TLC log."""
    pre = '<<"%s", "' % marker
    with open(path, "r", errors="replace") as f:
        for line in f:
            if line.startswith(pre):
                body = line.rstrip("\n")
                if not body.endswith('">>'):
                    continue
                yield json.loads(unescape_tla(body[len(pre):-3]))


def run_mc(module, cfg, outdir, workers=NCPU, simulate=None, seed=None, timeout=3600, xmx="8g", coverage=False):
    """Model-check spec/mc/<module>.tla with <cfg>; returns dict(states, distinct, log, scripts_path)."""
    os.makedirs(outdir, exist_ok=True)
    logp = os.path.join(outdir, "%s.%s.tlc.log" % (module, os.path.basename(cfg)))
    md = os.path.join(outdir, "md_%s_%s" % (module, os.path.basename(cfg)))
    shutil.rmtree(md, ignore_errors=True)
    args = ["-workers", str(workers), "-metadir", md, "-config", cfg]
    if coverage:
        args += ["-coverage", "1"]
    if simulate:
        args += ["-simulate", simulate]
        if seed is not None:
            args += ["-seed", str(seed)]
    args += [module + ".tla"]
    t0 = time.time()
    rc, _ = java_tlc(args, cwd=os.path.join(SPEC, "mc"), stdout=logp, timeout=timeout, xmx=xmx)
    shutil.rmtree(md, ignore_errors=True)
    txt_tail = ""
    states = distinct = 0
    with open(logp, "r", errors="replace") as f:
        for line in f:
            if line.startswith("<<"):
                continue
            m = RE_STATES.search(line)
            if m:
                states, distinct = int(m.group(1)), int(m.group(2))
            txt_tail = (txt_tail + line)[-4000:]
    if rc != 0 and not (simulate and rc in (0,)):
        raise Infra("TLC on %s/%s exited %d (the specification itself fails or does not parse):\n%s"
                    % (module, cfg, rc, txt_tail))
    return dict(states=states, distinct=distinct, log=logp, wall=time.time() - t0)


def run_apalache(module, steps, outdir, timeout=600):
    """Apalache inductive-invariant runs on spec/apalache/<module>.tla.  Returns the list of steps proved."""
    od = os.path.join(outdir, "apalache")
    done = []
    for init, inv, length, nxt in steps:
        shutil.rmtree(od, ignore_errors=True)
        argv = ["timeout", str(timeout), "apalache-mc", "check", "--init=" + init, "--next=" + nxt, "--inv=" + inv,
                "--length=%d" % length, "--out-dir=" + od, "--run-dir=" + os.path.join(od, "run"), module + ".tla"]
        r = subprocess.run(argv, cwd=os.path.join(SPEC, "apalache"), capture_output=True, text=True)
        if r.returncode != 0 or "EXITCODE: OK" not in r.stdout:
            raise Infra("Apalache %s: %s => %s (length %d) not proved (the specification itself fails):\n%s"
                        % (module, init, inv, length, r.stdout[-1500:] + r.stderr[-500:]))
        done.append("%s /\\ [%s]^%d => %s" % (init, nxt, length, inv))
    shutil.rmtree(od, ignore_errors=True)
    return done


# ----------------------------------------------------------------- scripts
def case_id(prop, stage, idx, ops):
    h = hashlib.sha1(json.dumps(ops, sort_keys=True).encode()).hexdigest()[:12]
    return "%s/%s/%s" % (prop, stage, h)


def write_cases(path, prop, stage, scripts, start=0):
    """scripts: iterable of op lists -> file with one case per line; returns count, ops."""
    n = ops = 0
    with open(path, "w") as f:
        for s in scripts:
            cid = case_id(prop, stage, start + n, s)
            f.write(json.dumps([cid] + list(s), separators=(",", ":")) + "\n")
            n += 1
            ops += len(s)
    return n, ops


def shard_file(path, outdir, target_ops=120000, min_shards=NCPU):
    """Split a case file into shards of about target_ops operations."""
    lines = open(path).read().splitlines()
    if not lines:
        return []
    total = sum(l.count('"op":') for l in lines)
    nsh = max(1, min(len(lines), max(min_shards, (total + target_ops - 1) // target_ops)))
    per = (total + nsh - 1) // nsh
    shards, cur, curops = [], [], 0
    for l in lines:
        cur.append(l)
        curops += l.count('"op":')
        if curops >= per:
            shards.append(cur)
            cur, curops = [], 0
    if cur:
        shards.append(cur)
    out = []
    base = os.path.basename(path)
    for i, sh_ in enumerate(shards):
        p = os.path.join(outdir, "%s.shard%03d" % (base, i))
        with open(p, "w") as f:
            f.write("\n".join(sh_) + "\n")
        out.append(p)
    return out


# ------------------------------------------------------------------ driver
def run_driver(drv, script, trace, seed=1, leak_every=0, timeout=20, wall=3600, env=None, extra=()):
    """Run the driver over a case file, restarting after an abort so that the
    remaining cases are still executed.  Returns number of aborts."""
    if os.path.exists(trace):
        os.remove(trace)
    ncases = sum(1 for _ in open(script))
    skip = 0
    aborts = 0
    e = dict(os.environ)
    e.setdefault("ASAN_OPTIONS", "detect_leaks=1:leak_check_at_exit=0:abort_on_error=0:exitcode=23:allocator_may_return_null=1:detect_stack_use_after_return=0")
    e.setdefault("UBSAN_OPTIONS", "print_stacktrace=1:halt_on_error=1")
    e.setdefault("LSAN_OPTIONS", "print_suppressions=0")
    e.setdefault("TSAN_OPTIONS", "report_signal_unsafe=0")
    if env:
        e.update(env)
    errlog = trace + ".stderr"
    t0 = time.time()
    abort_time = 0.0
    while skip < ncases:
        t_it = time.time()
        cmd = [drv, "--script", script, "--out", trace, "--seed", str(seed), "--skip", str(skip),
               "--keys", os.path.join(VERIF, "harness/keys"), "--tmp", os.path.join(WORK, "tmp"),
               "--timeout", str(timeout)] + list(extra)
        if leak_every:
            cmd += ["--leak-every", str(leak_every)]
        with open(errlog, "a") as ef:
            try:
                r = sh(cmd, env=e, stdout=subprocess.DEVNULL, stderr=ef, timeout=max(60, wall - (time.time() - t0)))
            except subprocess.TimeoutExpired:
                raise Infra("driver wall-clock timeout on " + script)
        if r.returncode == 0:
            break
        if r.returncode == 3:
            raise Infra("driver usage/script error, see " + errlog + ":\n" + open(errlog).read()[-1500:])
        # aborted: find the last Case index in the trace, make sure an Abort event is there
        aborts += 1
        abort_time += time.time() - t_it
        last_n, has_abort = -1, False
        with open(trace, "rb") as f:
            f.seek(0, 2)
            size = f.tell()
            f.seek(max(0, size - 4_000_000))
            tail = f.read().decode("utf-8", "replace").splitlines()
        for line in tail:
            if line.startswith('{"e":"Case"'):
                try:
                    last_n = json.loads(line)["n"]
                except Exception:
                    pass
                has_abort = False
            elif line.startswith('{"e":"Abort"'):
                has_abort = True
        with open(trace, "a") as f:
            if tail and not tail[-1].endswith("}"):
                f.write("\n")
            if not has_abort:
                f.write(json.dumps({"e": "Abort", "case": "?", "opi": -1, "why": "died-rc%d" % r.returncode, "inlib": 1}) + "\n")
        if last_n < skip:
            raise Infra("driver died before its first case (rc=%d), see %s" % (r.returncode, errlog))
        skip = last_n + 1
        if aborts > 60 or (aborts >= 3 and abort_time > 120):
            # (or it hangs: every hang costs a watchdog period)
            # the tree under test dies all the time: what has been seen is reported, the remaining cases of this
            # shard are recorded as not executed (a Case marker with no operation) so that the bookkeeping adds up
            ids = [json.loads(l)[0] for l in open(script)]
            with open(trace, "a") as f:
                for n in range(skip, ncases):
                    f.write(json.dumps({"e": "Case", "id": ids[n], "n": n}) + "\n" + json.dumps({"e": "EndCase"}) + "\n")
                f.write(json.dumps({"e": "End", "cases": ncases - skip}) + "\n")
            break
    if os.path.exists(errlog) and os.path.getsize(errlog) == 0:
        os.remove(errlog)
    return aborts


def execute(drv, script, trace, seed, dopts):
    """Run one case file through the driver, or through the tool runner (C20)."""
    d = dict(dopts)
    runner = d.pop("runner", None)
    if runner == "tools":
        import vtools
        bdir = os.path.dirname(drv)
        return vtools.run_cases(script, trace, bdir, drv, os.path.join(WORK, "tmp", "tools"), seed) and 0
    return run_driver(drv, script, trace, seed=seed, **d)


# -------------------------------------------------------------- validation
def validate_trace(trace, prop, outdir, xmx="3g", timeout=1800):
    """Run TLC on spec/Trace.tla over one trace file; returns the RESULT dict."""
    tag = os.path.basename(trace)
    md = os.path.join(outdir, "md_" + tag)
    shutil.rmtree(md, ignore_errors=True)
    logp = os.path.join(outdir, tag + ".tlc.log")
    rc, _ = java_tlc(["-workers", "1", "-metadir", md, "-config", "Trace.cfg", "Trace.tla"],
                     cwd=SPEC, env={"TRACE": trace, "PROP": prop}, stdout=logp, xmx=xmx, timeout=timeout)
    shutil.rmtree(md, ignore_errors=True)
    res = None
    for r in iter_marked(logp, "RESULT"):
        res = r
    if rc != 0 or res is None:
        tail = open(logp, errors="replace").read()[-3000:]
        raise Infra("trace validation of %s failed (rc=%d):\n%s" % (trace, rc, tail))
    if res["consumed"] != res["total"]:
        raise Infra("trace %s not consumed: %r" % (trace, res))
    os.remove(logp)
    return res


def process_shard(args):
    drv, shard, tracedir, prop, seed, dopts = args
    trace = os.path.join(tracedir, os.path.basename(shard) + ".trace.ndjson")
    t0 = time.time()
    aborts = execute(drv, shard, trace, seed, dopts)
    t1 = time.time()
    nev = sum(1 for _ in open(trace))
    res = validate_trace(trace, prop, tracedir)
    t2 = time.time()
    return dict(shard=shard, trace=trace, res=res, aborts=aborts, events=nev, t_drv=t1 - t0, t_val=t2 - t1)


def run_stage(drv, casefile, rundir, prop, seed, dopts, keep_traces=False, target_ops=120000):
    """Shard a case file, run driver + validation per shard in parallel.
    Returns (results list)."""
    os.makedirs(rundir, exist_ok=True)
    os.makedirs(os.path.join(WORK, "tmp"), exist_ok=True)
    shards = shard_file(casefile, rundir, target_ops=target_ops)
    out = []
    with cf.ThreadPoolExecutor(max_workers=NCPU) as ex:
        futs = [ex.submit(process_shard, (drv, s, rundir, prop, seed, dopts)) for s in shards]
        for f in futs:
            out.append(f.result())
    return out


def find_case_line(casefile_or_shard, cid):
    with open(casefile_or_shard) as f:
        for line in f:
            if line.startswith('["%s"' % cid):
                return line
    return None


def case_events(trace, cid):
    ev, on = [], False
    with open(trace) as f:
        for line in f:
            if line.startswith('{"e":"Case"'):
                on = ('"id":"%s"' % cid) in line
            if on:
                ev.append(line.rstrip("\n"))
    return ev


def confirm_case(drv, case_line, prop, seed, dopts, tmpdir):
    """Re-run one case in a fresh driver process and validate it alone."""
    os.makedirs(tmpdir, exist_ok=True)
    cid = json.loads(case_line)[0]
    tag = hashlib.sha1(cid.encode()).hexdigest()[:12]
    sp = os.path.join(tmpdir, "confirm_%s.script" % tag)
    tp = os.path.join(tmpdir, "confirm_%s.trace.ndjson" % tag)
    with open(sp, "w") as f:
        f.write(case_line if case_line.endswith("\n") else case_line + "\n")
    d2 = dict(dopts)
    if d2.get("leak_every"):
        d2["leak_every"] = 1
    execute(drv, sp, tp, seed, d2)
    res = validate_trace(tp, prop, tmpdir)
    events = open(tp).read().splitlines()
    os.remove(sp)
    os.remove(tp)
    return res, events


# ---------------------------------------------------------- known findings
def load_known():
    p = os.path.join(VERIF, "known_findings.json")
    if not os.path.exists(p):
        return []
    return json.load(open(p)).get("findings", [])


def _get(obj, path):
    cur = obj
    for part in path.split("."):
        if isinstance(cur, list):
            try:
                cur = cur[int(part)]
            except Exception:
                return None
        elif isinstance(cur, dict):
            if part not in cur:
                return None
            cur = cur[part]
        else:
            return None
    return cur


def match_known(known, prop, clauses, event, case_ops, events=()):
    """A finding matches when property and clause agree and every path in
    `event` / `anyop` selects the stated value."""
    for k in known:
        if k["property"] != prop:
            continue
        if k.get("clause") and k["clause"] not in clauses:
            continue
        ok = True
        for path, val in (k.get("event") or {}).items():
            if _get(event, path) != val:
                ok = False
                break
        for path, sub in (k.get("event_contains") or {}).items():
            val = _get(event, path)
            if not (isinstance(val, str) and sub in val):
                ok = False
                break
        if ok and k.get("anyop"):
            ok = any(all(_get(op, p) == v for p, v in k["anyop"].items()) for op in case_ops if isinstance(op, dict))
        if ok and k.get("anyevent"):
            ok = any(all(_get(ev, p) == v for p, v in k["anyevent"].items()) for ev in events if isinstance(ev, dict))
        if ok:
            return k
    return None


# ---------------------------------------------------------------- evidence
def write_evidence(prop, tier, seed, level, coverage, wall, violations, assumptions):
    os.makedirs(os.path.join(VERIF, "evidence"), exist_ok=True)
    ev = dict(property_id=prop, tier=tier, seed=seed, level=level, coverage=coverage,
              assumptions=assumptions, wall_s=round(wall, 2), violations=violations)
    p = os.path.join(VERIF, "evidence", prop + ".json")
    with open(p + ".tmp", "w") as f:
        json.dump(ev, f, indent=1)
    os.replace(p + ".tmp", p)
