"""Seeded script generators (random walks over the driver's vocabulary).
They only produce operations; what the results must be is decided by TLC."""
import random

BIAS = 1 << 63


def W(v):
    u = v + BIAS
    return [u >> 44, (u >> 22) & 0x3FFFFF, u & 0x3FFFFF]


W0 = W(0)

ASYM = {
    "rsa512a": ("RSA", 512, "~"), "rsa1024a": ("RSA", 1024, "~"), "rsa2040a": ("RSA", 2040, "~"),
    "rsa2047a": ("RSA", 2047, "~"), "rsa2048a": ("RSA", 2048, "~"), "rsa2048b": ("RSA", 2048, "~"),
    "rsa2052a": ("RSA", 2052, "~"), "rsa2056a": ("RSA", 2056, "~"), "rsa3072a": ("RSA", 3072, "~"), "rsa3072b": ("RSA", 3072, "~"),
    "rsa4096a": ("RSA", 4096, "~"),
    "p256a": ("EC", 256, "P-256"), "p256b": ("EC", 256, "P-256"), "p384a": ("EC", 384, "P-384"),
    "p384b": ("EC", 384, "P-384"), "p521a": ("EC", 521, "P-521"), "p521b": ("EC", 521, "P-521"),
    "k256a": ("EC", 256, "secp256k1"), "k256b": ("EC", 256, "secp256k1"),
    "ed25519a": ("OKP", 256, "Ed25519"), "ed25519b": ("OKP", 256, "Ed25519"),
    "ed448a": ("OKP", 456, "Ed448"), "ed448b": ("OKP", 456, "Ed448"),
}
ASYM.update({"bp256a": ("EC", 256, "brainpoolP256r1"), "bp384a": ("EC", 384, "brainpoolP384r1"),
             "bp512a": ("EC", 512, "brainpoolP512r1"), "p224a": ("EC", 224, "secp224r1")})
for _c, _b, _n in (("p256", 256, "P-256"), ("p384", 384, "P-384"), ("p521", 521, "P-521"), ("k256", 256, "secp256k1")):
    for _z in ("zx", "zy", "zd"):
        ASYM[_c + _z] = ("EC", _b, _n)
for _c, _b, _n in (("ed25519", 256, "Ed25519"), ("ed448", 456, "Ed448")):
    for _z in ("zx", "zd"):
        ASYM[_c + _z] = ("OKP", _b, _n)


def asym(base, priv=1, alg="~", kid="~", **kw):
    kty, bits, crv = ASYM[base]
    d = dict(base=base, kty=kty, bits=bits, crv=crv, var="a", priv=priv, alg=alg, kid=kid,
             use="~", ops=[], defect=[], bad=0)
    d.update(kw)
    return d


def octk(nbytes, var="a", alg="~", kid="~", **kw):
    d = dict(base="oct", kty="oct", bits=8 * nbytes, crv="~", var=var, priv=1, alg=alg, kid=kid,
             use="~", ops=[], defect=[], bad=0)
    d.update(kw)
    return d


def defect(k, member, cls):
    d = dict(k)
    d["defect"] = [[member, cls]]
    d["bad"] = 1
    return d


def val(t, name, v=None, replace=0, jcls="~", jm=None, jcanon="~"):
    if v is None:
        v = W0 if t == "int" else "~"
    return dict(t=t, name=name, val=v, replace=replace, jcls=jcls, jm=jm or [], jcanon=jcanon)


def mem(name, t, s="", w=None):
    return [name, t, s, w or W0]


def forge(alg="none", hdr_m=None, pay_m=None, sigcls="empty", sigkey=None, sigalg=None, shape="3seg",
          hcls="obj", pcls="obj", over="self", alter="none", **sigextra):
    sig = dict(cls=sigcls, alg=sigalg or alg, key=sigkey or octk(32), over=over)
    sig.update(sigextra)
    return dict(src="forge", shape=shape, alter=alter,
                hdr=dict(cls=hcls, alg=alg, m=hdr_m or []),
                pay=dict(cls=pcls, m=pay_m or []), sig=sig)


# ------------------------------------------------------------------- C16
def c16_walks(nwalks, length):
    def gen(seed):
        rnd = random.Random(seed * 7919 + 16)
        kids = ["k1", "k2", "k3", "~"]
        for _ in range(nwalks):
            ops, count = [], 0
            live = False
            if rnd.random() < 0.5:
                ops.append(dict(op="Ops", name="gnutls"))
            for _ in range(length):
                x = rnd.random()
                if not live or x < 0.30:
                    n = rnd.choice([1, 1, 1, 2, 3])
                    keys = []
                    for _ in range(n):
                        k = octk(rnd.choice([32, 48, 64]), var=rnd.choice("ab"), alg=rnd.choice(["~", "HS256"]), kid=rnd.choice(kids))
                        if rnd.random() < 0.3:
                            k = defect(k, "k", rnd.choice(["absent", "number", "empty"]))
                        elif rnd.random() < 0.3:    # keys that own provider-side objects
                            k = asym(rnd.choice(["p256a", "ed25519a", "rsa2048a", "p384a"]), priv=rnd.choice([0, 1]), kid=rnd.choice(kids))
                            if rnd.random() < 0.2:
                                k = defect(k, "x" if k["kty"] != "RSA" else "n", rnd.choice(["absent", "short", "notb64"]))
                        keys.append(k)
                    doc = rnd.choice(["keys", "keys", "single"]) if n == 1 else "keys"
                    if rnd.random() < 0.07:
                        ops.append(dict(op="Load", ring=0, via="load_strn" if live else "create_strn", doc="nonjson", keys=[], text="][ not json"))
                    else:
                        via = rnd.choice(["load", "load_strn", "fromfile", "fromfp"]) if live else rnd.choice(["create", "create_strn", "create_fromfile", "create_fromfp"])
                        ops.append(dict(op="Load", ring=0, via=via, doc=doc, keys=keys[:1] if doc == "single" else keys))
                        count += 1 if doc == "single" else n
                    live = True
                elif x < 0.55:
                    idx = rnd.choice([0, 0, 1, 2, max(0, count - 1), count, count + 3])
                    hi = rnd.choice([0, 0, 0, 0, 1, 2**20])
                    ops.append(dict(op="ItemFree", ring=0, index=idx, hi=hi))
                    if idx < count and hi == 0:
                        count -= 1
                elif x < 0.62:
                    ops.append(dict(op="FreeBad", ring=0))
                    count = min(count, count)  # unknown how many; upper bound stays
                elif x < 0.66 or count > 40:
                    ops.append(dict(op="FreeAll", ring=0))
                    count = 0
                elif x < 0.76:
                    ops.append(dict(op="ItemGet", ring=0, index=rnd.choice([0, 1, 2, 3, 5, 8, count, 60]), hi=rnd.choice([0, 0, 0, 1, 3, 2**31 - 1])))
                elif x < 0.84:
                    ops.append(dict(op="Find", ring=0, kid=rnd.choice(["k1", "k2", "k3", "k", "k11", ""])))
                elif x < 0.92:
                    ops.append(dict(op="Count", ring=0))
                else:
                    ops.append(dict(op="ErrAny", ring=0))
            yield ops
    return gen


# ------------------------------------------------------------------- C15
def c15_to_callbacks(scripts, seed):
    """Replay builder map behaviours on the jwt_t handed to a generate callback
    and to a verify callback (same operations, other call site)."""
    for s in scripts:
        steps = [dict(k=o["k"], which=o["which"], v=o["v"], map=1) for o in s if o.get("op") == "BMap"]
        if not steps:
            continue
        yield [dict(op="BNew", b=0), dict(op="BSetCb", b=0, prog=steps), dict(op="Generate", b=0, slot=-1)]
        yield [dict(op="CNew", c=0), dict(op="CSetCb", c=0, prog=steps),
               dict(op="Verify", c=0, tok=forge("none"))]


def c15_alias():
    """What is stored on the builder and what is done to the per-call token object are two maps: a member of
    every type is stored on the builder, a callback replaces / deletes the same name on the token (or the library
    stamps iat / nbf / exp over it), a token is generated (twice), and the builder is read back."""
    vals = [("int", W(5), W(77)), ("str", "x", "y"), ("bool", 1, 0)]

    def gen(seed):
        for which in ("clm", "hdr"):
            for t, v1, v2 in vals:
                for name in ("a", "iat", "exp", "nbf", "typ"):
                    for cbk in ("set", "del", "delall", "none"):
                        ops = [dict(op="BNew", b=0), dict(op="BMap", b=0, k="set", which=which, v=val(t, name, v1, 0))]
                        if cbk == "set":
                            ops.append(dict(op="BSetCb", b=0, prog=[dict(k="set", which=which, map=1, v=val(t, name, v2, 1))]))
                        elif cbk == "del":
                            ops.append(dict(op="BSetCb", b=0, prog=[dict(k="del", which=which, map=1, v=val("int", name))]))
                        elif cbk == "delall":
                            ops.append(dict(op="BSetCb", b=0, prog=[dict(k="del", which=which, map=1, v=val("int", "~"))]))
                        ops += [dict(op="BOffset", b=0, claim="exp", secs=W(600)), dict(op="BOffset", b=0, claim="nbf", secs=W(5)),
                                dict(op="Generate", b=0, slot=0), dict(op="BMap", b=0, k="get", which=which, v=val(t, name)),
                                dict(op="Generate", b=0, slot=1), dict(op="BMap", b=0, k="get", which=which, v=val("json", "~"))]
                        yield ops
            # a nested object stored on the builder, an object of the same name merged into the token by the callback
            ops = [dict(op="BNew", b=0), dict(op="BMap", b=0, k="set", which=which, v=val("json", "o", OBJ_TEXT, 0, "obj", OBJ_M, OBJ_TEXT)),
                   dict(op="BSetCb", b=0, prog=[dict(k="set", which=which, map=1, v=val("json", "~", OBJ2_TEXT, 1, "obj", OBJ2_M, '{"l":[true],"n":null,"o":{"x":1},"r":1.5}'))]),
                   dict(op="Generate", b=0, slot=0), dict(op="BMap", b=0, k="get", which=which, v=val("json", "~"))]
            yield ops
    return gen


OBJ2_TEXT = '{"r":1.5,"n":null,"o":{"x":1},"l":[true]}'
OBJ2_M = [mem("l", "arr", "[true]"), mem("n", "null", "null"), mem("o", "obj", '{"x":1}'), mem("r", "real", "1.5")]
OBJ_TEXT = '{"a":1,"c":"z"}'
OBJ_M = [mem("a", "int", "", W(1)), mem("c", "str", "z")]


def c15_walks(nwalks, length):
    def gen(seed):
        rnd = random.Random(seed * 104729 + 15)
        names = ["a", "b", "c", "r", "n", "o", "l", "iat", "typ", "", "~"]
        for _ in range(nwalks):
            ops = [dict(op="BNew", b=0)]
            for _ in range(length):
                which = rnd.choice(["hdr", "clm"])
                x = rnd.random()
                n = rnd.choice(names)
                if x < 0.5:
                    t = rnd.choice(["int", "str", "bool", "json"])
                    rep = rnd.choice([0, 0, 1])
                    if t == "int":
                        v = val("int", n, W(rnd.choice([0, 1, -1, 5, 2**31, -2**31 - 1, 2**62, -2**63, 2**63 - 1])), rep)
                    elif t == "str":
                        v = val("str", n, rnd.choice(["x", "", "hello world", "~", "a\\\\b", "q\"uote"]), rep)
                    elif t == "bool":
                        v = val("bool", n, rnd.choice([0, 1]), rep)
                    else:
                        c = rnd.choice(["obj", "obj", "obj2", "arr", "malformed", "scalar", "null", "emptyobj"])
                        if c == "obj":
                            v = val("json", n, OBJ_TEXT, rep, "obj", OBJ_M, OBJ_TEXT)
                        elif c == "obj2":
                            v = val("json", n, OBJ2_TEXT, rep, "obj", OBJ2_M, '{"l":[true],"n":null,"o":{"x":1},"r":1.5}')
                        elif c == "emptyobj":
                            v = val("json", n, "{}", rep, "obj", [], "{}")
                        elif c == "arr":
                            v = val("json", n, "[1, 2]", rep, "arr", [], "[1,2]")
                        elif c == "malformed":
                            v = val("json", n, rnd.choice(['{"a":', '{"a":1,"a":2}', "", "nope", "{'a':1}"]), rep, "malformed")
                        elif c == "scalar":
                            v = val("json", n, rnd.choice(["7", '"s"', "true", "null"]), rep, "scalar")
                        else:
                            v = val("json", n, "~", rep, "null")
                    ops.append(dict(op="BMap", b=0, k="set", which=which, v=v))
                elif x < 0.85:
                    t = rnd.choice(["int", "str", "bool", "json"])
                    ops.append(dict(op="BMap", b=0, k="get", which=which, v=val(t, n)))
                else:
                    ops.append(dict(op="BMap", b=0, k="del", which=which, v=val("int", n if rnd.random() < 0.8 else "~")))
            yield ops
    return gen


# ------------------------------------------------------------------- C04
def c04_walks(ncases):
    KOCT = octk(32)

    def gen(seed):
        rnd = random.Random(seed * 15485863 + 4)

        def wide_any():
            r = rnd.random()
            if r < 0.4:
                return rnd.randrange(-2**63, 2**63)
            if r < 0.7:
                return rnd.randrange(0, 2**41)
            return rnd.choice([0, 1, -1, 2**31 - 1, 2**31, 2**32, 2**40, 2**62, 2**63 - 1, -2**63])

        for _ in range(ncases):
            signed = rnd.random() < 0.5
            now = rnd.choice([rnd.randrange(0, 2**40), rnd.randrange(1_600_000_000, 1_900_000_000), 0, 2**40])
            ops = ([dict(op="Load", ring=0, via="create", doc="keys", keys=[KOCT]), dict(op="CNew", c=0),
                    dict(op="CSetKey", c=0, alg="HS256", ring=0, key=0)] if signed else [dict(op="CNew", c=0)])
            ops.append(dict(op="Clock", now=W(now)))
            lee = {"exp": 0, "nbf": 0}
            for _ in range(rnd.randrange(0, 6)):
                x = rnd.random()
                if x < 0.6:
                    c = rnd.choice(["exp", "nbf"])
                    l = rnd.choice([-1, 0, 1, 60, rnd.randrange(0, 2**40), 2**40, rnd.randrange(0, 100000)])
                    lee[c] = l
                    ops.append(dict(op="CLeeway", c=0, claim=c, secs=W(l)))
                elif x < 0.85:
                    ops.append(dict(op="CClaimSet", c=0, claim=rnd.choice(["iss", "sub", "aud"]), val=rnd.choice(["me", "you", "", "x y"])))
                else:
                    ops.append(dict(op="CClaimDel", c=0, claim=rnd.choice(["iss", "sub", "aud"])))
            for _ in range(rnd.randrange(1, 5)):
                m = []
                for c in ("exp", "nbf"):
                    r = rnd.random()
                    if r < 0.15:
                        continue
                    if r < 0.65:   # near the boundary
                        base = now - max(lee[c], 0) if c == "exp" else now + max(lee[c], 0)
                        v = base + rnd.choice([-2, -1, 0, 1, 2, rnd.randrange(-1000, 1000)])
                    else:
                        v = wide_any()
                    v = max(-2**63, min(2**63 - 1, v))
                    m.append(mem(c, "int", "", W(v)))
                for c in ("iss", "sub", "aud"):
                    if rnd.random() < 0.5:
                        m.append(mem(c, "str", rnd.choice(["me", "you", "", "x y", "Me"])))
                tok = forge("HS256", pay_m=m, sigcls="valid", sigkey=KOCT) if signed else forge("none", pay_m=m)
                ops.append(dict(op="Verify", c=0, tok=tok))
            yield ops
    return gen


def replicate(reps):
    """Concretise every abstract cell `reps` times: same operations, a different
    'rep' tag (the driver derives its random positions from the case id)."""
    def expand(scripts, seed):
        import copy
        for s in scripts:
            for r in range(reps):
                c = copy.deepcopy(s)
                for op in c:
                    if op.get("op") in ("Verify", "Forge") and isinstance(op.get("tok"), dict):
                        op["tok"]["rep"] = r
                yield c
    return expand


# ------------------------------------------------------------------- C05
LIBNAMES = {"alg", "typ", "iat", "nbf", "exp"}


def _rand_str(rnd, cls):
    n = rnd.choice([0, 1, 3, 8, 20])
    if cls == "long" and rnd.random() < 0.3:
        n = rnd.choice([255, 256, 1000, 5000, 65536])
    if cls == "unicode" or (cls in ("nested", "long") and rnd.random() < 0.3):
        alpha = [chr(c) for c in (0x20, 0x22, 0x5c, 0x2f, 0x7f, 0xe9, 0x3b1, 0x4e2d, 0x20ac, 0xfffd, 0x1f600, 0x10ffff, 0x0a, 0x09, 0x01)] + list("abcXYZ09 -_")
    else:
        alpha = list("abcdefghijklmnopqrstuvwxyzABCXYZ0123456789 -_./+=")
    return "".join(rnd.choice(alpha) for _ in range(n))


def _rand_val(rnd, cls, depth):
    r = rnd.random()
    if depth <= 0 or r < 0.45:
        k = rnd.random()
        if k < 0.30:
            if cls == "bigint" or rnd.random() < 0.2:
                return rnd.choice([2**63 - 1, -2**63, 2**62, -2**62, 2**53 + 1, 2**32, -2**31 - 1, rnd.randrange(-2**63, 2**63)])
            return rnd.randrange(-1000, 1000)
        if k < 0.65:
            return _rand_str(rnd, cls)
        if k < 0.75:
            return rnd.choice([True, False])
        if k < 0.82:
            return None
        if k < 0.90:
            # reals, including ones that need all 17 significant digits to survive a round trip
            return rnd.choice([0.5, -1.25, 1e10, 3.0, 1.5e-7, 0.1 + 0.2, 1.0 / 3.0, 3.141592653589793, 18446744073709551616.0,
                               1.7976931348623157e308, 5e-324, 2.2250738585072014e-308, rnd.random(), rnd.uniform(-1e6, 1e6),
                               rnd.random() * 10.0 ** rnd.randrange(-300, 300)])
        return rnd.choice([[], {}])
    if r < 0.75:
        return {(_rand_str(rnd, cls) or "k") + str(i): _rand_val(rnd, cls, depth - 1) for i in range(rnd.randrange(0, 5))}
    return [_rand_val(rnd, cls, depth - 1) for _ in range(rnd.randrange(0, 5))]


def rand_tree(rnd, cls):
    import json as _j
    if cls == "empty":
        return "{}"
    depth = {"flat": 1, "nested": 6}.get(cls, 3)
    o = {}
    for i in range(rnd.randrange(1, 7)):
        name = (_rand_str(rnd, cls) or "n") + str(i)
        if name in LIBNAMES:
            name += "_"
        o[name] = _rand_val(rnd, cls, depth - 1)
    return _j.dumps(o, ensure_ascii=False)


def c05_trees(scripts, seed):
    """Concretise "@tree:<class>" placeholders with seeded random JSON trees and
    repeat the texts in the Generate operation (hjson/cjson)."""
    import copy
    n = 0
    for s in scripts:
        n += 1
        rnd = random.Random(seed * 6700417 + n)
        c = copy.deepcopy(s)
        texts = {"hdr": "{}", "clm": "{}"}
        for op in c:
            if op.get("op") == "BMap" and isinstance(op["v"].get("val"), str) and op["v"]["val"].startswith("@tree:"):
                t = rand_tree(rnd, op["v"]["val"][6:])
                texts[op["which"]] = t
                op["v"]["val"] = "#hex:" + t.encode("utf-8").hex()
            elif op.get("op") == "Generate" and "hjson" in op:
                op["hjson"] = "#hex:" + texts["hdr"].encode("utf-8").hex()
                op["cjson"] = "#hex:" + texts["clm"].encode("utf-8").hex()
        yield c


def repeat_tail(k, times, per_case):
    """Repeat the last k operations `times` times, split over cases of `per_case` repetitions."""
    def expand(scripts, seed):
        import copy
        for s in scripts:
            head, tail = s[:-k], s[-k:]
            done = 0
            i = 0
            while done < times:
                m = min(per_case, times - done)
                c = copy.deepcopy(head) + [dict(op="Clock", now=W(1700000000 + i))]
                for _ in range(m):
                    c += copy.deepcopy(tail)
                yield c
                done += m
                i += 1
    return expand


# ------------------------------------------------------------------- C06
def c06_fuzz(ncases, per_case):
    cfgs = [None, (octk(32), "HS256"), (asym("rsa2048a"), "RS256"), (asym("p256a"), "ES256"),
            (asym("ed25519a"), "EdDSA"), (asym("p521a"), "ES512"), (octk(64), "HS512"), (asym("rsa2048a"), "PS256")]

    def gen(seed):
        rnd = random.Random(seed * 2147483647 + 6)
        interesting = [0x2e, 0x3d, 0x2d, 0x5f, 0x2b, 0x2f, 0x41, 0x7b, 0x22, 0x80, 0xff, 0x01, 0x20, 0x0a]
        for ci in range(ncases):
            cfg = cfgs[ci % len(cfgs)]
            prov = "openssl" if (ci // len(cfgs)) % 2 == 0 else "gnutls"
            ops = [dict(op="Ops", name=prov)]
            if cfg is None:
                ops += [dict(op="BNew", b=0), dict(op="BMap", b=0, k="set", which="clm", map=0, v=val("str", "sub", "fuzz")),
                        dict(op="Generate", b=0, slot=0, lite=1), dict(op="CNew", c=0)]
            else:
                k, a = cfg
                ops += [dict(op="Load", ring=0, via="create", doc="keys", keys=[k]), dict(op="BNew", b=0),
                        dict(op="BSetKey", b=0, alg=a, ring=0, key=0),
                        dict(op="BMap", b=0, k="set", which="clm", map=0, v=val("str", "sub", "fuzz")),
                        dict(op="Generate", b=0, slot=0, lite=1), dict(op="CNew", c=0),
                        dict(op="CSetKey", c=0, alg=a, ring=0, key=0)]
            for _ in range(per_case):
                r = rnd.random()
                if r < 0.2:
                    n = rnd.choice([0, 1, 2, 3, 4, 5, 7, 8, 16, 33, 100, 1000]) if rnd.random() < 0.95 else rnd.choice([20000, 65536])
                    if n > 2000:
                        b = bytes(x or 1 for x in rnd.randbytes(n))
                    else:
                        b = bytes(rnd.choice(interesting) if rnd.random() < 0.4 else rnd.randrange(1, 256) for _ in range(n))
                    tok = dict(src="raw", hex=b.hex())
                else:
                    muts = []
                    for _ in range(rnd.choice([1, 1, 1, 2, 3, 6])):
                        kind = rnd.choice(["set", "set", "del", "ins", "ins", "trunc", "pad", "dup"])
                        if kind == "pad" and rnd.random() < 0.9:
                            kind = "set"
                        byte = rnd.choice(interesting) if rnd.random() < 0.6 else rnd.randrange(1, 256)
                        muts.append([kind, rnd.randrange(0, 1000001), byte])
                    tok = dict(src="mut", slot=0, muts=muts)
                ops.append(dict(op="Verify", c=0, tok=tok))
            yield ops
    return gen


# ------------------------------------------------------------------- C07
def c07_custom_alloc():
    """Keys of every type, well-formed and defective, through every entry point under both providers with an
    application allocator that is NOT interchangeable with libc's (the driver tracks what it handed out): every
    block the library passes to the application's free() must have come from the application's malloc()."""
    vias_new = ["create", "create_strn", "create_fromfile", "create_fromfp"]
    vias_old = ["load", "load_strn", "fromfile", "fromfp"]
    good = [octk(32, alg="HS256", kid="o"), asym("rsa2048a", 1, "RS256"), asym("rsa2048a", 0), asym("p256a", 1, "ES256"), asym("p384a", 0),
            asym("p521a", 1), asym("k256a", 0), asym("ed25519a", 1), asym("ed448a", 0), asym("ed25519zx", 0)]
    bad = [defect(asym("p256a", 0), "y", "offcurve"), defect(asym("p256a", 1), "d", "short"), defect(asym("rsa2048a", 1), "qi", "notb64"),
           defect(asym("ed25519a", 1), "d", "short"), defect(octk(32), "k", "notb64"), defect(asym("p384a", 0), "crv", "unknownstr")]

    def gen(seed):
        for prov in ("openssl", "gnutls"):
            for i, k in enumerate(good + bad):
                yield [dict(op="Ops", name=prov),
                       dict(op="Load", ring=0, via=vias_new[i % 4], doc="single" if i % 2 else "keys", keys=[k]),
                       dict(op="Load", ring=0, via=vias_old[i % 4], doc="keys", keys=[k, good[(i + 3) % len(good)], bad[i % len(bad)]]),
                       dict(op="Find", ring=0, kid="o"), dict(op="FreeBad", ring=0), dict(op="ItemFree", ring=0, index=0),
                       dict(op="FreeAll", ring=0), dict(op="RingFree", ring=0)]
    return gen


def c02_toolpin():
    """The setkey table on the command line: jwt-verify -a PIN with key files whose key carries an alg attribute."""
    keys = [(octk(64, alg="HS512"), ["HS512", "HS256", "HS384", "RS256"]), (asym("rsa2048a", 1, "RS384"), ["RS384", "RS256", "PS384", "HS256"]),
            (asym("p256a", 1, "ES256"), ["ES256", "ES384", "EdDSA"]), (asym("ed25519a", 1, "EdDSA"), ["EdDSA", "ES256"]),
            (asym("rsa2048a", 1, "PS256"), ["PS256", "RS256", "PS512"])]

    def gen(seed):
        for k, pins in keys:
            for pin in pins:
                for spell in ("short", "long"):
                    yield [dict(op="ToolPin", key=k, pin=pin, spell=spell)]
    return gen


def c16_faults():
    """Loads of keys of every type into a fresh and into an existing key set, each followed by the removal routes; run
    with every allocation request inside the loads failing once (--fault-only Load) and a leak check at the end of
    every such run (--fault-leak): whatever a load does when memory runs short, the set stays a list that can be
    released completely."""
    sets = [[octk(32, alg="HS256", kid="k1"), asym("rsa2048a", 0, "RS256", kid="k2")],
            [asym("p256a", 1, "ES256", kid="k3"), asym("ed25519a", 1, kid="k4")],
            [defect(octk(32, kid="kb"), "k", "absent"), asym("p384a", 0, kid="k5"), octk(48, kid="k1")]]

    def gen(seed):
        for i, ks in enumerate(sets):
            yield [dict(op="Load", ring=0, via="create", doc="keys", keys=ks),
                   dict(op="Load", ring=0, via="load", doc="keys", keys=sets[(i + 1) % 3]),
                   dict(op="Count", ring=0), dict(op="Find", ring=0, kid="k1"), dict(op="ItemGet", ring=0, index=1),
                   dict(op="ItemFree", ring=0, index=0), dict(op="FreeBad", ring=0), dict(op="FreeAll", ring=0), dict(op="RingFree", ring=0)]
            yield [dict(op="Load", ring=0, via="create_strn", doc="single", keys=ks[:1]),
                   dict(op="Load", ring=0, via="load_strn", doc="keys", keys=ks), dict(op="RingFree", ring=0)]
    return gen


def c07_switch():
    """Keys loaded under one provider and released under the other (the provider is switched between the load and
    every removal route): whoever allocated the key object, removal releases it - leak check after every case."""
    good = [asym("rsa2048a", 1, "RS256"), asym("rsa2048a", 0), asym("p256a", 1, "ES256"), asym("p384a", 0), asym("ed25519a", 1), asym("ed448a", 0),
            octk(32, alg="HS256", kid="o")]
    routes = [[dict(op="ItemFree", ring=0, index=0), dict(op="RingFree", ring=0)], [dict(op="FreeAll", ring=0), dict(op="RingFree", ring=0)],
              [dict(op="RingFree", ring=0)], [dict(op="FreeBad", ring=0), dict(op="ItemFree", ring=0, index=1), dict(op="RingFree", ring=0)]]

    def gen(seed):
        for a in ("openssl", "gnutls"):
            for b in ("openssl", "gnutls"):
                for i, k in enumerate(good):
                    for r in routes:
                        yield [dict(op="Ops", name=a),
                               dict(op="Load", ring=0, via="create", doc="keys", keys=[k, good[(i + 2) % len(good)]]),
                               dict(op="Ops", name=b)] + r
    return gen


def c07_fuzz(ncases, per_case):
    """Random byte strings, random JSON and byte-mutated JWKS texts through every entry point.
    Their JSON-ness is unknown to the generator (doc class "anyraw"): only 'returns, no sanitizer
    report, no leak, every new item errored-with-message or usable' is judged."""
    import json as _j
    vias_new = ["create", "create_strn", "create_fromfile", "create_fromfp"]
    vias_old = ["load", "load_strn", "fromfile", "fromfp"]
    base_docs = [
        '{"keys":[{"kty":"oct","k":"AAECAwQFBgcICQoLDA0ODxAREhMUFRYXGBkaGxwdHh8","alg":"HS256","kid":"a"},{"kty":"EC","crv":"P-256","x":"f83OJ3D2xF1Bg8vub9tLe1gHMzV76e8Tus9uPHvRVEU","y":"x_FEzRu9m36HLN_tue659LNpXW6pCyStikYjKIWI5a0"}]}',
        '{"kty":"OKP","crv":"Ed25519","x":"11qYAYKxCrfVS_7TyWQHOg7hcvPapiMlrwIaaPcHURo","kid":"ed"}',
        '{"kty":"RSA","n":"sXchDaQebHnPiGvyDOAT4saGEUetSyo9MKLOoWFsueri23bOdgWp4Dy1WlUzewbgBHod5pcM9H95GQRV3JDXboIRROSBigeC5yjU1hGzHHyXss8UDprecbAYxknTcQkhslANGRUZmdTOQ5qTRsLAt6BTYuyvVRdhS8exSZEy_c4gs_7svlJJQ4H9_NxsiIoLwAEk7-Q3UXERGYw_75IDrGA84-lA_-Ct4eTlXHBIY2EaV7t7LjJaynVJCpkv4LKjTTAumiGUIuQhrNhZLuF_RJLqHpM2kgWFLU7-VTdL1VbC2tejvcI2BlMkEpk1BzBZI0KQB0GaDWFLN-aEAw3vRw","e":"AQAB","alg":"RS256"}',
    ]

    def gen(seed):
        rnd = random.Random(seed * 999331 + 7)

        def rjson(d):
            r = rnd.random()
            if d <= 0 or r < 0.3:
                return rnd.choice([0, 1, -1, 2**40, 1.5, True, None, "", "oct", "RSA", "EC", "OKP", "AQAB", "P-256", "Ed25519", "!!", "A" * rnd.choice([1, 5, 43, 342])])
            if r < 0.7:
                names = ["kty", "k", "n", "e", "d", "p", "q", "dp", "dq", "qi", "crv", "x", "y", "alg", "use", "key_ops", "kid", "keys", "zz"]
                return {rnd.choice(names): rjson(d - 1) for _ in range(rnd.randrange(0, 6))}
            return [rjson(d - 1) for _ in range(rnd.randrange(0, 4))]

        # texts that are echoed into error messages: printf conversions must stay data.  First the
        # deterministic ones (a lexer error quotes the unterminated token; member values may be quoted
        # by item messages), one fresh keyring per text and entry point
        convs = [b"%s%s%s%s%s%s%s%s%s%s%s%s", b"%n%n%n%n%n%n%n%n", b"%2000000000d%n", b"%5$s", b"%", b"100%%", b"%x.%x.%x.%x.%lx.%p"]
        hostile = []
        for cv in convs:
            hostile += [b'"' + cv, b'{"kty":"oct","k":"20' + cv, b'["' + cv, cv, b'{"keys":[{"kty":"' + cv + b'"}]}',
                        b'{"keys":[{"kty":"oct","k":"' + cv + b'"}]}', b'{"keys":[{"kty":"EC","crv":"' + cv + b'","x":"AA","y":"AA"}]}',
                        b'{"keys":[{"kty":"oct","k":"AAAA","alg":"' + cv + b'","kid":"' + cv + b'"}]}', b'{"' + cv + b'":']
        for i, b in enumerate(hostile):
            via = vias_new[i % 4]
            yield [dict(op="Load", ring=0, via=via, doc="anyraw", keys=[], hex=b.hex()),
                   dict(op="Load", ring=0, via=vias_old[(i // 4) % 4], doc="anyraw", keys=[], hex=b.hex()),
                   dict(op="RingFree", ring=0)]
        for _ in range(ncases):
            ops = []
            live = False
            for _ in range(per_case):
                r = rnd.random()
                if r < 0.3:
                    n = rnd.choice([0, 1, 2, 5, 17, 64, 300]) if rnd.random() < 0.97 else 70000
                    b = rnd.randbytes(n)
                elif r < 0.6:
                    b = _j.dumps(rjson(4)).encode()
                else:
                    b = bytearray(rnd.choice(base_docs).encode())
                    for _ in range(rnd.choice([1, 1, 2, 4])):
                        k = rnd.random()
                        pos = rnd.randrange(0, len(b) + 1)
                        if k < 0.08:
                            b[pos:pos] = rnd.choice(convs)
                        elif k < 0.16:      # characters beyond ASCII, as valid UTF-8 (the text stays JSON)
                            b[pos:pos] = rnd.choice(["\u00e9", "\u20ac", "\U0010ffff", "\u00ff\u0080"]).encode()
                        elif k < 0.4 and pos < len(b):
                            b[pos] = rnd.choice([0x22, 0x7b, 0x7d, 0x5b, 0x5d, 0x2c, 0x3a, 0x5c, 0x00, 0xff, 0x41, 0x3d, 0x2d])
                        elif k < 0.6 and pos < len(b):
                            del b[pos]
                        elif k < 0.8:
                            b.insert(pos, rnd.randrange(0, 256))
                        else:
                            b = b[:pos]
                    b = bytes(b)
                via = rnd.choice(vias_old if live else vias_new)
                cls = "anyraw"
                if rnd.random() < 0.15:
                    # a complete JSON document followed by NUL and more bytes: not JSON (by construction)
                    # for the entry points that are given the length or read a file
                    b = rnd.choice(base_docs).encode() + b"\x00" + rnd.choice([b"", b"x", b" ", rnd.choice(base_docs).encode(), rnd.randbytes(5)])
                    via = rnd.choice(["load_strn", "fromfile", "fromfp"] if live else ["create_strn", "create_fromfile", "create_fromfp"])
                    cls = "nonjson"
                ops.append(dict(op="Load", ring=0, via=via, doc=cls, keys=[], hex=b.hex()))
                live = True
                if rnd.random() < 0.1:
                    ops.append(dict(op="FreeBad", ring=0))
                if rnd.random() < 0.05:
                    ops.append(dict(op="RingFree", ring=0))
                    live = False
            yield ops
    return gen


def under_provider(every, name="gnutls"):
    """Every script as it is, and every `every`-th one once more with the other provider selected first."""
    def expand(scripts, seed):
        i = 0
        for s in scripts:
            yield s
            i += 1
            if i % every == 0:
                yield [dict(op="Ops", name=name)] + list(s)
    return expand


# ------------------------------------------------------------------- C08
def c08_fresh(n, every=1):
    """Replace fixture key material by freshly generated keys (KeyGen) / fresh oct bytes."""
    def expand(scripts, seed):
        import copy
        rnd = random.Random(seed * 31337 + 8)
        i = 0
        for s in scripts:
            i += 1
            if i % every:
                continue
            for r in range(n):
                c = copy.deepcopy(s)
                pre = []
                for op in c:
                    for k in op.get("keys", []):
                        if k["kty"] == "oct":
                            k["var"] = "v%d" % rnd.randrange(1 << 30)
                        elif k["kty"] == "RSA" and k["bits"] > 3072:
                            continue
                        else:
                            kind = "RSA" if k["kty"] == "RSA" else k["crv"]
                            name = "fresh%d" % len(pre)
                            pre.append(dict(op="KeyGen", name=name, kind=kind, bits=k["bits"]))
                            k["base"] = name
                yield pre + c
    return expand


# ------------------------------------------------------------------- C11
_B64U = b"ABCDEFGHIJKLMNOPQRSTUVWXYZabcdefghijklmnopqrstuvwxyz0123456789-_"


ZEROQ = {"ASAN_OPTIONS": "detect_leaks=1:leak_check_at_exit=0:abort_on_error=0:exitcode=23:allocator_may_return_null=1:"
                         "detect_stack_use_after_return=0:quarantine_size_mb=0:thread_local_quarantine_size_kb=0"}


def c01_rotation(reps):
    """Verification-side key rotation: a checker holds public key A and accepts A's token; A's keyring is freed and
    key B loaded (its item usually lands where A's was); the checker is given B: A's token must now be refused and
    B's accepted, under either provider.  Run with a zero ASan quarantine (addresses are reused at once)."""
    PAIRS = [("ed25519a", "ed25519b", "EdDSA"), ("rsa2048a", "rsa2048b", "RS256"), ("rsa2048a", "rsa2048b", "PS256"),
             ("p256a", "p256b", "ES256"), ("ed448a", "ed448b", "EdDSA"), ("p384a", "p384b", "ES384"), ("p521a", "p521b", "ES512")]

    def gen(seed):
        for prov in ("openssl", "gnutls"):
            for a, b, alg in PAIRS:
                for r in range(reps):
                    ops = [dict(op="Ops", name=prov), dict(op="CNew", c=0)]
                    ta = forge(alg, pay_m=[mem("sub", "str", "a")], sigcls="valid", sigkey=asym(a, 0), sigalg=alg)
                    tb = forge(alg, pay_m=[mem("sub", "str", "b")], sigcls="valid", sigkey=asym(b, 0), sigalg=alg)
                    ops += [dict(op="Forge", slot=0, tok=ta), dict(op="Forge", slot=1, tok=tb)]
                    for i in range(2 + r):
                        cur = a if i % 2 == 0 else b
                        ops += [dict(op="Load", ring=0, via="create", doc="keys", keys=[asym(cur, 0)]),
                                dict(op="CSetKey", c=0, alg=alg, ring=0, key=0),
                                dict(op="Verify", c=0, tok=dict(src="slot", slot=0)),
                                dict(op="Verify", c=0, tok=dict(src="slot", slot=1)),
                                dict(op="CSetKey", c=0, alg="none", ring=0, key=-1),
                                dict(op="RingFree", ring=0)]
                    yield ops
    return gen


def c12_rotation(reps):
    """Key rotation: sign with key A, free its keyring, load key B (same type, or another), sign again - the
    second token must carry B's signature under either provider, and each provider must accept it.  Run with
    a zero ASan quarantine so that the freed key's address is reused at once (what an ordinary allocator does)."""
    PAIRS = [("ed25519a", "ed25519b", "EdDSA"), ("rsa2048a", "rsa2048b", "RS256"), ("rsa2048a", "rsa2048b", "PS256"),
             ("p256a", "p256b", "ES256"), ("ed448a", "ed448b", "EdDSA"), ("p384a", "p384b", "ES384"),
             ("rsa2048a", "p256a", None), ("ed25519a", "rsa2048b", None), ("p521a", "ed448a", None)]
    NATIVE = {"RSA": "RS256", "OKP": "EdDSA"}

    def nat(base):
        kty, bits, crv = ASYM[base]
        return NATIVE.get(kty) or {256: "ES256", 384: "ES384", 521: "ES512"}[bits]

    def gen(seed):
        for prov in ("openssl", "gnutls"):
            for a, b, alg in PAIRS:
                for r in range(reps):
                    a1, a2 = alg or nat(a), alg or nat(b)
                    ops = [dict(op="Ops", name=prov),
                           dict(op="Load", ring=1, via="create", doc="keys", keys=[asym(a, 0), asym(b, 0)]),
                           dict(op="BNew", b=0), dict(op="CNew", c=0)]
                    cur = [(a, a1, 0), (b, a2, 1)] * (1 + r)
                    for i, (base, al, pubidx) in enumerate(cur):
                        ops += [dict(op="Load", ring=0, via="create", doc="keys", keys=[asym(base, 1)]),
                                dict(op="BSetKey", b=0, alg=al, ring=0, key=0),
                                dict(op="Generate", b=0, slot=i % 4),
                                dict(op="CSetKey", c=0, alg=al, ring=1, key=pubidx),
                                dict(op="Verify", c=0, tok=dict(src="slot", slot=i % 4)),
                                dict(op="Ops", name="openssl" if prov == "gnutls" else "gnutls"),
                                dict(op="Verify", c=0, tok=dict(src="slot", slot=i % 4)),
                                dict(op="Ops", name=prov),
                                dict(op="BSetKey", b=0, alg="none", ring=0, key=-1),
                                dict(op="RingFree", ring=0)]
                    yield ops
    return gen


def c11_users(maxlen):
    """The codec as its callers use it: token segments whose JSON text has every length up to maxlen
    (all residues mod 3 and mod 4: the callers terminate / measure what the decoder returned), unsigned
    and HS256-signed, read back by a callback; oct JWKs with k of every length."""
    def gen(seed):
        for n in range(0, maxlen):
            ops = [dict(op="CNew", c=0), dict(op="CSetCb", c=0, prog=[dict(k="read")])]
            for h in (0, 1, 2):
                hm = [mem("h", "str", "y" * (n % 5 + h))] if (n + h) % 2 else []
                ops.append(dict(op="Verify", c=0, tok=forge("none", hdr_m=hm, pay_m=[mem("p", "str", "x" * n)])))
            yield ops
            if n < 12:
                # member text that is not base64url as a whole although a prefix of it is (escaped NUL, then anything):
                # no key may come out of it, through any entry point
                tails = ["\\u0000QUJD", "\\u0000", "\\u0000@@@@", "\\u0000=", "\\u0001QUJD", " QUJD"]
                kdoc = '{"keys":[{"kty":"oct","k":"QUJDQUJDQUJDQUJDQUJDQUJDQUJDQUJDQUJDQUJDQUJD%s"},{"kty":"oct","alg":"HS256","k":"QU%sJD"}]}' % (tails[n % 6], tails[(n + 1) % 6])
                via = ["create", "create_strn", "create_fromfile", "create_fromfp", "load", "load_strn", "fromfile", "fromfp"][n % 8]
                pre = [dict(op="Load", ring=1, via="create", doc="keys", keys=[octk(32)])] if via in ("load", "load_strn", "fromfile", "fromfp") else []
                yield pre + [dict(op="Load", ring=1, via=via, doc="allbad", keys=[], hex=kdoc.encode().hex())]
            k = octk(32)
            yield [dict(op="Load", ring=0, via="create", doc="keys", keys=[k]), dict(op="CNew", c=0),
                   dict(op="CSetKey", c=0, alg="HS256", ring=0, key=0),
                   dict(op="Verify", c=0, tok=forge("HS256", pay_m=[mem("p", "str", "x" * n), mem("n", "int", "", None)], sigcls="valid", sigkey=k)),
                   dict(op="Load", ring=0, via="load", doc="keys", keys=[octk(n + 1, var="b")]),
                   dict(op="ItemGet", ring=0, index=1)]
    return gen


def c11_sweep(maxbytes):
    """Every length: decode of the valid text of every byte length 0..maxbytes (text lengths across 256, 512, 1024
    and their neighbours: where an implementation switches between a fixed buffer and the heap), the same text with
    padding, with one more character (length 1 mod 4 for some), and encode of the bytes."""
    import base64

    def gen(seed):
        rnd = random.Random(seed * 7919 + 11)
        ops = []
        for n in range(0, maxbytes + 1):
            b = rnd.randbytes(n)
            t = base64.urlsafe_b64encode(b).rstrip(b"=")
            ops.append(dict(op="Codec", dir="dec", chars=list(t)))
            ops.append(dict(op="Codec", dir="dec", chars=list(base64.urlsafe_b64encode(b))))     # padded
            ops.append(dict(op="Codec", dir="dec", chars=list(t + b"A")))
            if n <= 96 and n > 0:
                # a run of '=' longer than any padding (whatever the decoder makes of it, it stays inside its buffers)
                ops.append(dict(op="Codec", dir="dec", chars=list(t + b"=" * (3 + n % 14))))
            ops.append(dict(op="Codec", dir="enc", bytes=list(b)))
            if len(ops) >= 40:
                yield ops
                ops = []
        if ops:
            yield ops
    return gen


def c11_random(ncases, per_case):
    """Random byte strings up to 64 KiB: encode; decode of valid text, of text with one
    foreign byte, of text of length 1 mod 4, of standard-alphabet spellings."""
    import base64

    def gen(seed):
        rnd = random.Random(seed * 49979687 + 11)
        for _ in range(ncases):
            ops = []
            for _ in range(per_case):
                n = rnd.choice([0, 1, 2, 3, 4, 5, 31, 32, 33, 64, 100, 255, 256, 257, 1000, 4095, 4096, 4097]) if rnd.random() < 0.93 else rnd.choice([16384, 65535, 65536])
                b = rnd.randbytes(n)
                r = rnd.random()
                if r < 0.35:
                    ops.append(dict(op="Codec", dir="enc", bytes=list(b)))
                else:
                    t = bytearray(base64.urlsafe_b64encode(b).rstrip(b"="))
                    if r < 0.55:
                        pass
                    elif r < 0.7 and t:
                        t[rnd.randrange(len(t))] = rnd.choice([0x2e, 0x20, 0x2a, 0x80, 0xff, 0x0a, 0x40, 0x5b, 0x60, 0x7b, 0x3a, 0x2c,
                                                                0xc1, 0xe1, 0xb0, 0xab, 0xaf, 0xad, 0xdf, rnd.randrange(0x80, 0x100)])
                    elif r < 0.8:
                        while len(t) % 4 != 1:
                            t.append(rnd.choice(_B64U))
                    elif r < 0.9:
                        t = bytearray(base64.b64encode(b).rstrip(b"="))          # standard alphabet
                    else:
                        t += b"=" * rnd.choice([1, 2, 3])
                    ops.append(dict(op="Codec", dir="dec", chars=[c for c in t if c != 0]))
            yield ops
    return gen


# ------------------------------------------------------- whole-API random walks
def api_walks(ncases, length):
    """Random sessions over the whole vocabulary: one keyring, two builders, two checkers,
    four token slots; configuration, callbacks, clock and provider changes interleaved with
    generate and verify (each also on a fresh twin).  Judged by whatever clauses are on."""
    KEYS = [octk(32), octk(64, alg="HS512"), asym("rsa2048a", 1, "RS256"), asym("rsa2048a", 0),
            asym("p256a", 1), asym("p256a", 0, "ES256"), asym("ed25519a", 1), octk(16), asym("p384a", 1, "ES384", kid="k384")]
    ALGS = ["none", "HS256", "HS512", "RS256", "PS256", "ES256", "ES384", "EdDSA", "HS384"]
    MATCH = {0: "HS256", 1: "HS512", 2: "RS256", 3: "RS256", 4: "ES256", 5: "ES256", 6: "EdDSA", 7: "HS256", 8: "ES384"}

    def gen(seed):
        rnd = random.Random(seed * 7368787 + 99)
        for _ in range(ncases):
            now = 1_700_000_000
            ops = [dict(op="Load", ring=0, via="create", doc="keys", keys=KEYS),
                   dict(op="BNew", b=0), dict(op="BNew", b=1), dict(op="CNew", c=0), dict(op="CNew", c=1)]
            for _ in range(length):
                r = rnd.random()
                o = rnd.randrange(2)
                if r < 0.14:
                    idx = rnd.choice([-1, 0, 1, 2, 3, 4, 5, 6, 7, 8])
                    alg = rnd.choice([MATCH.get(idx, "none"), "none", rnd.choice(ALGS)])
                    ops.append(dict(op=rnd.choice(["BSetKey", "CSetKey"]), alg=alg, ring=0, key=idx, **({"b": o})))
                    if ops[-1]["op"] == "CSetKey":
                        ops[-1].pop("b"); ops[-1]["c"] = o
                elif r < 0.26:
                    which = rnd.choice(["hdr", "clm"])
                    k = rnd.choice(["set", "set", "del", "get"])
                    n = rnd.choice(["a", "typ", "alg", "iat", "exp", "sub", "kid", "~"])
                    if k == "set":
                        t = rnd.choice(["int", "str", "bool"])
                        v = val(t, n, W(rnd.choice([1, 7, now + 50, now - 50])) if t == "int" else ("x" if t == "str" else 1), rnd.choice([0, 1]))
                    elif k == "get":
                        v = val(rnd.choice(["int", "str", "json"]), n)
                    else:
                        v = val("int", n)
                    ops.append(dict(op="BMap", b=o, k=k, which=which, v=v, map=0))
                elif r < 0.30:
                    ops.append(dict(op="BIat", b=o, enable=rnd.choice([0, 1, 1, 2, -1, 256])))
                elif r < 0.35:
                    ops.append(dict(op="BOffset", b=o, claim=rnd.choice(["exp", "nbf", "iat"]), secs=W(rnd.choice([-5, 0, 1, 30, 3600, 3600, 2**31, 2**32 + 5, 3155760000]))))
                elif r < 0.41:
                    ops.append(dict(op="CLeeway", c=o, claim=rnd.choice(["exp", "nbf", "iss"]), secs=W(rnd.choice([-1, 0, 5, 100, 100, 2**31, 2**40]))))
                elif r < 0.46:
                    ops.append(dict(op="CClaimSet", c=o, claim=rnd.choice(["iss", "sub", "aud", "exp"]), val=rnd.choice(["x", "me", "me", "~", "#hex:fffe", "#hex:6dc3a9"])))
                elif r < 0.49:
                    ops.append(dict(op="CClaimDel", c=o, claim=rnd.choice(["iss", "sub", "aud"])))
                elif r < 0.56:
                    steps = []
                    for _ in range(rnd.randrange(0, 3)):
                        s = rnd.random()
                        if s < 0.3:
                            steps.append(dict(k="key", ring=0, key=rnd.choice([-1, 0, 1, 2, 3, 5, 6])))
                        elif s < 0.5:
                            steps.append(dict(k="alg", alg=rnd.choice(ALGS)))
                        elif s < 0.6:
                            steps.append(dict(k="ret", ret=rnd.choice([0, 1])))
                        elif s < 0.8:
                            steps.append(dict(k="set", which="clm", map=0, v=val("str", rnd.choice(["sub", "iss", "cb"]), "x", 1)))
                        else:
                            steps.append(dict(k="del", which="clm", map=0, v=val("int", rnd.choice(["exp", "sub", "~"]))))
                    rr = rnd.random()
                    if rr < 0.2:
                        ops.append(dict(op=rnd.choice(["BSetCb", "CSetCb"])))
                    elif rr < 0.35:
                        ops.append(dict(op=rnd.choice(["BSetCb", "CSetCb"]), ctxonly=1))
                    else:
                        ops.append(dict(op=rnd.choice(["BSetCb", "CSetCb"]), prog=steps))
                    ops[-1]["b" if ops[-1]["op"][0] == "B" else "c"] = o
                elif r < 0.60:
                    now += rnd.choice([-100, -1, 1, 10, 3600])
                    ops.append(dict(op="Clock", now=W(now)))
                elif r < 0.63:
                    ops.append(dict(op="Ops", name=rnd.choice(["openssl", "gnutls", "gnutls", "bogus"])))
                elif r < 0.66:
                    ops.append(dict(op=rnd.choice(["BErrClear", "CErrClear"])))
                    ops[-1]["b" if ops[-1]["op"][0] == "B" else "c"] = o
                elif r < 0.80:
                    ops.append(dict(op="Generate", b=o, slot=rnd.randrange(4), twin=1))
                else:
                    if rnd.random() < 0.7:
                        tok = dict(src="slot", slot=rnd.randrange(4))
                    else:
                        ki = rnd.choice([0, 1, 2, 4, 6])
                        a = rnd.choice([MATCH[ki], MATCH[ki], MATCH[ki], "none", rnd.choice(ALGS),
                                        rnd.choice([MATCH[ki][:2], MATCH[ki] + "x", MATCH[ki] + "#0x", "none#0" + MATCH[ki], "", "None"])])
                        m = []
                        if rnd.random() < 0.5:
                            m.append(mem("exp", "int", "", W(now + rnd.choice([-10, -1, 0, 1, 10, 2**31 + 100, -2**31 - 100, 2**40]))))
                        if rnd.random() < 0.2:
                            m.append(mem("nbf", "int", "", W(now + rnd.choice([-10, 0, 1, 10, 2**31 + 100, -2**32 + 100]))))
                        if rnd.random() < 0.3:
                            m.append(mem("iss", "str", rnd.choice(["x", "me"])))
                        tok = forge(a, pay_m=m, sigcls=rnd.choice(["valid", "valid", "flipbit", "empty", "garbage"]), sigkey=KEYS[ki], sigalg=(a if a in ALGS else MATCH[ki]))
                        if tok["sig"]["cls"] == "empty" or a == "none":
                            tok["sig"] = dict(cls="empty", alg="none", key=octk(32), over="self")
                    ops.append(dict(op="Verify", c=o, tok=tok, twin=1, nocb=1))
            yield ops
    return gen
