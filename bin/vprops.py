"""Per-property plans: which TLC instances produce scripts, which seeded
generators add to them, how the driver is built and run."""
import vgen as G

# properties whose statement includes crash / memory-safety freedom: an abort
# of the driver inside one of their cases is a violation of the property
CRASH_PROPS = {"C06", "C07", "C11", "C16", "C17", "C18"}

APIWALK_NOTE = (" Stage 'apiwalk': 300 (quick) / 20000 (thorough) seeded random API sessions of 60 operations over one "
                "keyring of nine keys, two builders, two checkers and four token slots (setkey, header/claim edits, "
                "iat/offsets/leeways/expected claims, callbacks selecting keys or editing claims, clock and provider "
                "changes, generate and verify of slot and forged tokens, each also on a fresh twin), judged by this "
                "property's clauses.")

ASSUME_COMMON = [
    "TLC evaluates spec/Trace.tla faithfully; ndJsonDeserialize reads the driver's events as written",
    "the driver (harness/jwtdrv.c) concretises descriptors as documented and logs results unmodified; jansson and OpenSSL are trusted for decoding and for the independent signer",
    "sanitizer clauses (memory safety, UB, leaks) are observed on the executed cases only (ASan/UBSan/LSan build of libjwt from the working tree)",
]


def mc(name, module, cfg, **kw):
    d = dict(kind="mc", name=name, module=module, cfg=cfg)
    d.update(kw)
    return d


def proof(name, module, steps, **kw):
    """Apalache runs on spec/apalache/<module>.tla; steps = [(init, inv, length, next)]"""
    d = dict(kind="proof", name=name, module=module, steps=steps)
    d.update(kw)
    return d


def gen(name, fn, **kw):
    d = dict(kind="gen", name=name, fn=fn)
    d.update(kw)
    return d


# stages run with an application allocator that is not libc's (the driver tracks what it handed out; a block it
# never handed out that reaches its free() from inside a library call aborts the case)
TRACK = dict(extra=("--track-alloc",))

PROPS = {}
HOOK_COMMITS = []
NOT_YET = {}

PROPS["C16"] = dict(
    level="model_checking", leak_every=25, exhaustive=True, call_timeout=20,
    stages=lambda tier, seed: [
        mc("seq", "MC_C16", "MC_C16_%s.cfg" % tier, expand=G.under_provider(4)),
        gen("walk", G.c16_walks(40 if tier == "quick" else 600, 300), dopts=TRACK),
        gen("faults", G.c16_faults(), dopts=dict(extra=("--fault", "--fault-only", "Load", "--fault-leak"), timeout=60), target_ops=1),
    ],
    rule=
         "all sequences of keyring mutators up to MaxLen (4 quick / 5 thorough) over an alphabet of 7 loads and removals "
         "at first/second/last/out-of-range positions, free_bad, free_all, (keys that own provider objects among them, "
         "and an EC private key whose d is too long: an errored item that got as far as a provider-side key object; every"
         " fourth sequence also under GnuTLS), each followed by a full read-back that starts and ends with a get at index"
         " 2 and is not ascending (item_get 2, 3, 1, 0, 7, 2^32 + k, count, find x7 (exact, other, shorter, longer, other"
         " case, empty, errored item's kid), error_any, item_get 1, 2); the driver re-reads the list from the last index "
         "down after every mutator, enumerated by TLC from MC_C16; every load must append exactly one item per element of"
         " its document, whatever state (sticky error, emptied list) the keyring was in (clause C16.append-all); stage "
         "'faults': loads of keys of every type into a fresh and an existing set with every allocation request inside the"
         " loads failing once, each run ended by the removal routes and a leak check (whatever a load does when memory "
         "runs short, the set stays a list that can be released completely); plus seeded random walks of 300 operations "
         "through every load entry point. distinct = distinct script hashes; every case is non-trivial (it contains at "
         "least one judged list operation).",
    assumptions=ASSUME_COMMON,
    level_text="TLC explores every sequence of keyring operations up to the bound on the specification (list invariants checked there) and every one of those behaviours is replayed into libjwt; each observed list (ids by pointer identity, counts, find results, return values) must equal the model's after every operation. Exhaustive up to the bound, sampled (seeded walks) beyond it.",
    level_note="Bounded: sequences of <= 4 (quick) / 5 (thorough) mutators over a 2-kid alphabet; use-after-free and leaks are observed by ASan/LSan on the executed sequences only (leak check every 25 cases and at exit).",
    design_ref="DESIGN.md section 7, C16",
)


PROPS["C15"] = dict(
    level="model_checking", leak_every=200, exhaustive=True,
    stages=lambda tier, seed: [
        # one worker: with a VIEW and a depth bound, which representative of a view class is expanded first decides
        # what lies within the bound - parallel BFS made the set of emitted transitions vary by a fraction of a percent
        mc("graph_clm", "MC_C15", "MC_C15_graph_clm.cfg", workers=1),
        mc("graph_hdr", "MC_C15", "MC_C15_graph_hdr.cfg", workers=1),
        mc("seq", "MC_C15", "MC_C15_seq_%s.cfg" % tier),
        mc("cbsites", "MC_C15", "MC_C15_graph_clm.cfg", expand=G.c15_to_callbacks, workers=1),
        gen("walk", G.c15_walks(60 if tier == "quick" else 1500, 200)),
        gen("alias", G.c15_alias()),
    ],
    rule=
         "(graph) every reachable state of the map over names {a,b,c,r,n,o,l} x every operation of a 108-operation "
         "alphabet (set INT/STR/BOOL/JSON obj, a second object carrying a real, a null, a nested object and an array, a "
         "third whose nested object has other keys (replace overwrites, never merges), arr, malformed, scalar, NULL text;"
         " names a, b, empty, NULL; with and without replace; named INT/STR/BOOL sets on the names the JSON objects merge"
         " in and JSON text with white space around every token (tab, CR, LF, blanks) and JSON text whose strings carry "
         "the escape \\u0000 (refused like malformed text: a set that takes it and a get that returns less than was stored"
         " breaks the map) (all tried in every reachable state, not used to reach further states); get of each type; "
         "delete one/all), one implementation test per transition, on builder claims and builder headers, and the same "
         "behaviours on the jwt_t inside a generate callback and a verify callback; (seq) all sequences up to length 3 "
         "(quick) / 4 (thorough) over a 20-operation alphabet (incl. the empty string and non-UTF-8 strings as values); "
         "every request's jwt_value_t carries a stale error code and the previous request's bits in its value union (only"
         " the member of the request's type is written, as the public macros do); (walk) seeded random walks of 200 "
         "operations with 64-bit extremes; (alias) a member of every type stored on the builder, the same name replaced /"
         " deleted / deleted-all on the token by the callback or stamped by the library (iat, nbf, exp), two generates, "
         "builder read back: the builder's maps hold what was stored on the builder. After every operation the whole "
         "header and claim objects are read back and compared with the model. distinct = distinct script hashes.",
    assumptions=ASSUME_COMMON,
    level_text="TLC explores the complete state graph of the typed-map specification (78 states, every operation "
               "from every state) and checks the map laws on it; each transition is replayed into libjwt at four "
               "call sites and every result, error code and the full map read back must equal the model's.",
    level_note="Names and values are a finite universe (ASCII names a/b/c, 12 value classes); merge of nameless "
               "arrays and JSON get of scalar members are left unconstrained because the property does not state them.",
    design_ref="DESIGN.md section 7, C15",
)


PROPS["C02"] = dict(
    level="model_checking", exhaustive=True,
    stages=lambda tier, seed: [mc("matrix", "MC_C02", "MC_C02_%s.cfg" % tier), gen("toolpin", G.c02_toolpin(), dopts=dict(runner="tools"), target_ops=12), mc("faults", "MC_C02", "MC_C02_fault.cfg", dopts=dict(extra=("--fault", "--fault-only", "Verify"), timeout=60), target_ops=1), gen("apiwalk", G.api_walks(300 if tier == "quick" else 20000, 60), dopts=TRACK)],
    rule=
         "finite matrix enumerated by TLC from MC_C02: (A) configured alg x key (absent, or key type x alg attribute "
         "incl. none, unknown and a family prefix such as HS) x {setkey, callback} on checker and builder; (B) every "
         "admitted checker configuration x 37 header alg spellings (14 names, none/None/NONE, case and padding variants, "
         "unknown, missing, non-string, near misses: family prefix, one more character, a NUL character inside, single "
         "letters) x signature class {empty, garbage, valid under the configured key, genuine under the checker's own "
         "algorithm whatever the header says, genuine under the algorithm the key is made for (an ECDSA signature "
         "labelled EdDSA), HMAC under the empty key, HMAC under the public PEM, valid under another key} x route {setkey,"
         " callback sets key+alg, key only, alg only}; (C) builder configurations x routes -> generate; (D) history: an "
         "EC key first used, successfully, under the algorithm it is made for, then pinned to every other ES* algorithm "
         "(checker and builder). (E) key swap: the object holds a default key whose alg attribute pins its algorithm "
         "(setkey with no or the matching explicit algorithm) and the callback hands over another key of the same family "
         "that has no alg attribute and names no algorithm (checker: token signed by that key under the default key's "
         "algorithm; builder: generate). (E') the same when the callback's key DOES carry an attribute (its own pin, "
         "whatever the default key or the object says), with the callback handing back the key alone or the key and "
         "algorithm none; (F) the object holds a key whose alg attribute pins its algorithm and the callback keeps that "
         "key but names another algorithm of the same family (token genuinely signed under that other algorithm; builder:"
         " generate). Stage 'toolpin': the table on the command line - jwt-verify -a / --algorithm with key files whose "
         "key carries an alg attribute, agreeing and disagreeing pins. Stage 'faults': every allocation request made "
         "inside jwt_checker_verify fails once on the classic substitutions (HMAC under the public PEM / the empty key, "
         "another key, unsigned, stripped, a sibling algorithm) through setkey and through the callback. quick uses one "
         "key per family and 9 of 16 configured algs, thorough all. distinct = distinct cells (script hashes).",
    assumptions=ASSUME_COMMON,
    level_text="The space is finite and TLC enumerates it completely within the chosen key set; the reference "
               "outcome is shown to satisfy C02 on every cell, and every cell is executed against libjwt and judged "
               "by the C02 clauses (accepted/produced only with the pinned algorithm and a key of its family; "
               "rows outside the setkey table refused).",
    level_note="One key per type (quick) / per type and size (thorough); signatures are real (independent signer), "
               "validity by construction. Does not demand that admissible rows succeed (that is C05/C09).",
    design_ref="DESIGN.md section 7, C02",
)


PROPS["C03"] = dict(
    level="model_checking", exhaustive=True,
    stages=lambda tier, seed: [mc("matrix", "MC_C03", "MC_C03_%s.cfg" % tier), mc("faults", "MC_C03", "MC_C03_fault.cfg", dopts=dict(extra=("--fault", "--fault-only", "Verify"), timeout=60), target_ops=1), gen("apiwalk", G.api_walks(300 if tier == "quick" else 20000, 60), dopts=TRACK)],
    rule=
         "finite matrix from MC_C03: checker set-ups (key loaded but not set / set with or without explicit alg; key with"
         " and without alg attribute) x callback {none, empty, sets key, sets alg, sets both, key + alg none} x header "
         "alg {none, None, NONE, the matching algorithm, missing, each non-string JSON type, none followed by a space or "
         "by a NUL character, the empty string, n} x signature {empty, valid, garbage, a third segment of '=' only (1, 2,"
         " 4; for the key-less checker also 3 and 8)} x shape {3 segments, 2 segments, 4 segments, 4 with empty last}; "
         "the key-less checker against every token class and every one of the 13 algorithm names in the header; builder "
         "set-ups x the same callbacks -> generate; the callback's life cycle (setcb, context-only setcb(NULL, ctx), "
         "setcb(NULL, NULL) in seven orders) before a generate / verify on objects keyed only through the callback. Every"
         " one of the 13 algorithms pinned (setkey and callback) on a private key of every type without alg attribute "
         "(oct 32/64, RSA 2048/3072, P-256/384/521, secp256k1, Ed25519, Ed448) under both providers -> generate: whatever"
         " a keyed builder returns carries a signature. Stage 'faults': every allocation request made inside "
         "jwt_checker_verify fails once on keyed checkers (setkey, setkey + callback, key through the callback only) "
         "handed unsigned and stripped tokens. oct and RSA keys in quick, all key types in thorough. distinct = distinct "
         "cells.",
    assumptions=ASSUME_COMMON,
    level_text="Complete enumeration of the configuration x token-shape matrix on the specification (reference outcome "
               "satisfies C03 on every cell) and replay of every cell into libjwt; an accepted token must be signed "
               "iff a key is in force, a produced token unsigned iff no key is in force.",
    level_note="'Key in force' is the configuration after the callback (a callback that clears the key is not enumerated: "
               "the property does not state it).",
    design_ref="DESIGN.md section 7, C03",
)


PROPS["C01"] = dict(
    level="model_checking", exhaustive=True,
    stages=lambda tier, seed: [mc("matrix", "MC_C01", "MC_C01_%s.cfg" % tier, expand=G.replicate(3 if tier == "quick" else 300)),
                               gen("rotation", G.c01_rotation(2 if tier == "quick" else 10), dopts=dict(env=G.ZEROQ)),
                               mc("faults", "MC_C01", "MC_C01_fault.cfg", dopts=dict(extra=("--fault", "--fault-only", "Verify"), timeout=60), target_ops=1),
                               gen("apiwalk", G.api_walks(300 if tier == "quick" else 20000, 60), dopts=TRACK)],
    rule=
         "matrix from MC_C01: (key, algorithm) pairs covering oct, RSA (PKCS1 and PSS, incl. an RSA-PSS typed key), "
         "P-256/384/521, secp256k1, Ed25519, Ed448, plus HS* pinned explicitly on RSA/EC/OKP public keys (admitted by the"
         " setkey table, never verifiable) x both providers x signature class {valid, non-canonical base64 of the same "
         "bytes, empty, garbage of two lengths, not base64, duplicated, the genuine signature TEXT followed by 1, 4, 255,"
         " 256, 512, 1024 and 65536 more characters of the alphabet, bit flipped at first/last/random position, truncated"
         " by 1/2, extended by random/zero bytes, signed over header only / payload only / with trailing dot / swapped "
         "segments / other text / the decoded JSON, by another key, by the same key under a sibling algorithm, ES: r and "
         "s zero-extended to wider widths, DER; HS: HMAC under empty and all-zero keys and, for public keys, under the "
         "PEM text; a genuine MAC that begins with / contains a zero octet offered with every later octet changed} + "
         "header/payload altered after signing + the genuine signature as LAST segment behind extra ones (h.p.AAAA.s, "
         "h.p..s, h.p.x.y.s, h.p.s.s, h.p.s.AAAA, h.p.s.) + header re-targeted to alg none; the genuine token followed "
         "(or preceded) by white space - LF, CRLF, CR, LF + text, blank, TAB - as read from a file; each cell concretised"
         " 3 (quick) / 300 (thorough) times with seed-drawn positions. Signatures are made by the driver's own signer. "
         "Stage 'rotation': a checker holds public key A and accepts A's token; A's keyring is freed, key B loaded and "
         "given to the checker: A's token must be refused and B's accepted, seven key pairs x both providers x 2..3 "
         "(quick) / up to 11 (thorough) rotations, run with a zero ASan quarantine so that freed addresses are reused at "
         "once. Callback scripts: a checker pinned to key A whose callback selects key B for exactly one token (B's token"
         " accepted), callback removed: B's token must be refused again and A's accepted, over 6 key pairs x both "
         "providers. Refused configuration: after a setkey that is refused (algorithm of another family, algorithm "
         "without a key, a key whose alg attribute contradicts, INVAL) the unsigned, the stripped and another key's token"
         " stay refused and the genuine one accepted, 4 key pairs x 6 refused calls x both providers. Stage 'faults': "
         "every allocation request made inside jwt_checker_verify fails once (4 key types x both providers x no callback "
         "/ empty callback / reading callback) on tokens that must be refused (payload altered after signing, flipped "
         "bit, stripped, unsigned, other key): running short of memory is no reason to accept. Tokens reach the library "
         "in heap blocks of exactly their size. distinct = distinct cells x reps.",
    assumptions=ASSUME_COMMON + ["cryptography is treated as perfect: a mutated valid signature is assumed invalid (by construction, not by TLC)"],
    level_text="Exhaustive over the abstract cells (key class x algorithm x provider x signature/alteration class); "
               "within a cell bytes are sampled. Accepting any cell whose class is not 'valid signature by the "
               "configured key under the header algorithm over header.payload' is a violation.",
    level_note="Soundness only (a rejected valid token is C05's business); fixture keys in quick, more sizes in thorough.",
    design_ref="DESIGN.md section 7, C01",
)


PROPS["C09"] = dict(
    level="model_checking", exhaustive=True,
    stages=lambda tier, seed: [mc("matrix", "MC_C09", "MC_C09_%s.cfg" % tier), gen("apiwalk", G.api_walks(300 if tier == "quick" else 20000, 60), dopts=TRACK)],
    rule=
         "matrix from MC_C09 (every pair through setkey AND through a callback that hands over key and algorithm): oct "
         "keys of length {0,1,16,31,32,33,47,48,49,63,64,65,100,160} (quick) / every length 0..160 (thorough) x "
         "HS256/384/512 (keys without alg attribute, and keys of 1..100 bytes whose JWK names the algorithm); oct keys of"
         " 31..65 octets whose k is written with '=' padding (the key is as long as its octets); RSA moduli of 512, 1024,"
         " 2040, 2047, 2048, 2056, 3072, 4096 bits x RS/PS algorithms; P-256/384/521 and secp256k1 x every ES algorithm; "
         "Ed25519 and Ed448; algorithm x key of another kind altogether (EdDSA/ES256/RS256/HS256 with EC, RSA, OKP and "
         "oct keys, token signed genuinely under the key's own algorithm); each through generate (private key), verify of"
         " the generated token and verify of a token signed by the driver's own signer (public key), on OpenSSL and "
         "GnuTLS. Keys whose import FAILED (missing e, n not base64, point off the curve, unknown curve, short x) handed "
         "to generate and verify: never a success. Reuse scripts: one checker, the same key first under the algorithm it "
         "is made for (accepted), then - through setkey or the callback - under an algorithm that asks for more (ES256 ->"
         " ES384/ES512, ES384 -> ES512, HS256 -> HS384/HS512, ...) with a token genuinely signed with that hash by that "
         "key, then the first token again. Both directions are judged: below the floor never succeeds, at or above it "
         "works. distinct = distinct cells.",
    assumptions=ASSUME_COMMON,
    level_text="The matrix is finite and enumerated completely (every oct length in thorough); TLC shows the reference "
               "outcome satisfies C09 on every cell and every cell is executed against libjwt.",
    level_note="RSA/EC/OKP keys are fixtures from harness/keys (one per size/curve); ES256 vs secp256k1 (same size, "
               "other curve) and ES256K under GnuTLS are left unconstrained.",
    design_ref="DESIGN.md section 7, C09",
)


PROPS["C14"] = dict(
    level="model_checking", exhaustive=True,
    stages=lambda tier, seed: [mc("causes", "MC_C14", "MC_C14_%s.cfg" % tier), mc("faultsv", "MC_C14", "MC_C14_faultv.cfg", dopts=dict(extra=("--fault", "--fault-only", "Verify"), timeout=60), target_ops=1), mc("faultsg", "MC_C14", "MC_C14_faultg.cfg", dopts=dict(extra=("--fault", "--fault-only", "Generate"), timeout=60), target_ops=1), mc("faultsl", "MC_C14", "MC_C14_faultl.cfg", dopts=dict(extra=("--fault", "--fault-only", "Load"), timeout=60), target_ops=1), gen("apiwalk", G.api_walks(300 if tier == "quick" else 20000, 60), dopts=TRACK)],
    rule=
         "one script per failure cause from MC_C14: 40 failing token classes (NULL/empty, missing dots, header not base64"
         " / not JSON / not an object / without or with non-string or unknown alg (incl. names of 239, 240, 241, 300 and "
         "5000 characters: longer than any message buffer), payload not base64 / not JSON, unsigned, bit-flipped / "
         "garbage / non-base64 / truncated / wrong-key / wrong-alg signature, expired, not yet valid, exp/nbf of wrong "
         "type, altered payload) under HS256 and RS256 (and ES256 in thorough), each as ok-fail-ok-fail-clear-fail on one"
         " checker; 12 policy causes (no key, refused setkey, iss/aud mismatch, callback error, callback-selected "
         "inadmissible key/alg, key below floor, wrong family, unknown alg attribute); 17 builder causes, plus five keys "
         "that failed to import but still say \"private\" given to the builder by setkey and by its callback under four "
         "algorithms; 39 JWK defects (attribute members key_ops / use / kid / alg of the wrong JSON type on otherwise "
         "good keys: if the item is refused it is explained) (incl. unknown kty / crv values of 300 characters); a clock "
         "that moves while the call is in progress (every reading one second later) against tokens that expire / become "
         "valid within that second: one verdict, one explanation; stages faultsv / faultsg / faultsl: every allocation "
         "request made inside verify / generate / a key load fails once - return value, error flag and message still "
         "agree, every errored item is explained; whole-object sets whose text is an array / a scalar / malformed / NULL "
         "(the same code in the return value and in the value's error field); value set/get calls incl. string values "
         "that are not UTF-8 on a fresh name, on an existing one with and without replace, and from a generate callback "
         "(every request carries a stale error code in its jwt_value_t). distinct = distinct scripts.",
    assumptions=ASSUME_COMMON,
    level_text="Every externally reachable failure cause the specification knows (its reject classes) is enumerated by "
               "TLC and executed; after each call the return value, the error flag and the message-non-empty bit "
               "must satisfy the contract, including clearing after success.",
    level_note="Message texts are not modelled (only emptiness). Causes inside the crypto providers that cannot be "
               "provoked from outside (internal OpenSSL/GnuTLS failures) are not covered.",
    design_ref="DESIGN.md section 7, C14",
)


PROPS["C04"] = dict(
    level="model_checking", exhaustive=True,
    stages=lambda tier, seed: [
        mc("lattice", "MC_C04", "MC_C04_%s.cfg" % tier),
        mc("faults", "MC_C04", "MC_C04_fault.cfg", dopts=dict(extra=("--fault", "--fault-only", "Verify"), timeout=60), target_ops=1),
        gen("walk", G.c04_walks(4000 if tier == "quick" else 200000)),
        gen("apiwalk", G.api_walks(300 if tier == "quick" else 20000, 60), dopts=TRACK),
    ],
    rule=
         "from MC_C04: boundary lattice exp - (now - leeway) and nbf - (now + leeway) in {-2..2} for now in {0, 1.7e9, "
         "2^40, -1, -2, 1} ((time_t)-1 is also one second before the epoch) x leeway in {-1, 0, 1, 300, 2^31, 2^40}, far "
         "values and 64-bit extremes, defaults without any configuration call, both claims at once, every JSON type in "
         "place of exp/nbf, 26 expected/actual string pairs (prefix, suffix, case, empty, non-ASCII, embedded NUL, wrong "
         "type, absent; values of 255..65536 characters that are equal, differ in the last character only, or are a "
         "prefix of one another) for iss/sub/aud, all combinations of three string checks; all sequences of up to 2 "
         "(quick) / 3 (thorough) configuration calls over a 14-call alphabet (incl. refused calls: leeway for iat, "
         "claim_set / claim_del for exp and nbf) followed by five probe tokens; callback scripts: a callback that adds, "
         "corrects or removes iss/sub/aud/exp/nbf on the token object it is handed, against tokens that lack, miss or "
         "meet the expectation (the checks are made on what the token carries); stage 'faults': every allocation request "
         "made inside jwt_checker_verify fails once on checkers with an expectation (no callback, empty callback, a "
         "callback that rewrites the failing claims) handed tokens that fail it (wrong / missing iss, expired, not yet "
         "valid, exp of the wrong type); every case with an unsigned and an HS256-signed token. Plus seeded random cases "
         "with uniformly drawn 64-bit exp/nbf, clocks and leeways. 64-bit values are compared in TLC as limb triples "
         "(Wide.tla). distinct = distinct scripts.",
    assumptions=ASSUME_COMMON,
    level_text="Exhaustive on the boundary lattice and the bounded configuration histories (TLC shows the reference "
               "satisfies C04 there), every case executed against libjwt and judged in both directions: accepted "
               "only if the configured checks pass, and rejected for no other reason than a configured check on "
               "otherwise acceptable tokens.",
    level_note="'Exactly as configured' is read as iff for otherwise acceptable tokens; values between the lattice points are sampled.",
    design_ref="DESIGN.md section 7, C04",
)


PROPS["C19"] = dict(
    level="model_checking", exhaustive=True,
    stages=lambda tier, seed: [mc("progs", "MC_C19", "MC_C19_%s.cfg" % tier),
                               mc("faults", "MC_C19", "MC_C19_fault.cfg", dopts=dict(extra=("--fault", "--fault-only", "Verify"), timeout=60), target_ops=1),
                               gen("apiwalk", G.api_walks(300 if tier == "quick" else 20000, 60), dopts=TRACK)],
    rule=
         "from MC_C19: all callback programs of up to 2 (quick) / 3 (thorough) steps over 16 header/claim steps (delete "
         "exp/nbf/iss/aud, delete all claims, delete all headers, delete/replace header alg, replace exp/nbf with passing"
         " or failing values, set/replace iss, add aud), plus control steps (return 1, -1, 256, INT_MIN+1, select key "
         "and/or alg, clear key) alone and combined with one edit; x 4 claim-check configurations x 10 tokens (passing "
         "and failing each check, bad signature, unsigned, other key); two verifications on one checker (with and without"
         " its own key): the first callback selects another key, the second (a successor that returns 0 and edits the "
         "token or does nothing, or no callback after setcb(NULL, NULL)) leaves the configuration alone - tokens of both "
         "keys; callbacks that replace ONLY the key on a checker whose default key carries an alg attribute (the "
         "attribute says nothing about the new key); context-only updates setcb(NULL, ctx) after a refusing / "
         "key-selecting callback (the callback stays), after setcb(NULL, NULL) (refused); stage 'faults': every "
         "allocation request made inside jwt_checker_verify fails once on checkers whose callback rewrites the very claim"
         " the token fails on (a verify that met a fault may refuse, it never accepts what the checker without callback "
         "refuses); every verify is repeated on an identically configured checker without the callback and both verdicts "
         "are logged. distinct = distinct scripts.",
    assumptions=ASSUME_COMMON,
    level_text="Programs are enumerated exhaustively up to the bound by TLC; on the specification the verdict is a "
               "function of the parsed token and the configuration after the callback, never of the callback's edits; "
               "each program is executed against libjwt and the verdict with callback must equal the verdict without "
               "it whenever the callback returns 0 and leaves key and alg alone; non-zero return must fail; selected "
               "key/alg must pass the setkey table.",
    level_note="Callback behaviours are programs over the public jwt_t API only (no raw memory writes).",
    design_ref="DESIGN.md section 7, C19",
)


PROPS["C13"] = dict(
    level="model_checking", exhaustive=True,
    stages=lambda tier, seed: [mc("seq", "MC_C13", "MC_C13_%s.cfg" % tier), mc("heap", "MC_C13", "MC_C13_nc.cfg", dopts=TRACK), gen("rotation", G.c01_rotation(2 if tier == "quick" else 10), dopts=dict(env=G.ZEROQ)), gen("apiwalk", G.api_walks(300 if tier == "quick" else 20000, 60), dopts=TRACK)],
    rule=
         "from MC_C13: all sequences of length 4 (quick) / 5 (thorough) over 13 checker elements (verify valid, bad "
         "signature, expired, no dot, header not JSON, no alg, NULL, empty, algorithm mismatch, callback failing then "
         "restored, callback selecting another key for one call, refused setkey, error_clear) on a checker with setkey, 5"
         " elements on a checker whose keys only ever come from its callback, 8 elements on a checker with claim "
         "expectations (verify matching / other / missing iss, claim_set valid and with values that are not UTF-8 - which"
         " fail after making the claim mandatory -, claim_del, error_clear), 7 elements on the callback's life cycle "
         "(verify good / bad signature, install a refusing callback that stays, install an accepting one, remove it, "
         "context-only update, error_clear), and over 7 builder elements (generate, failing callback, callback selecting "
         "another key once, key below the floor then restored, refused setkey, error_clear, claim change) on builders "
         "with and without setkey; an asymmetric history family (refused RS256 / ES256 tokens, an unusable EC JWK loaded,"
         " then valid and invalid ES256 tokens); stage 'heap': sequences of 4 over 9 elements (canonical tokens of two "
         "header lengths, tokens whose header and/or payload segment is not canonically encoded - unused bits set -, a "
         "bad signature, error_clear) under an application allocator whose fresh blocks hold something else each time "
         "(blank, NUL, '}', 'A', 0xbe, '\"'): the same answer every time whatever the heap held; stage 'rotation' (as in "
         "C01, zero ASan quarantine): the checker's key ring is freed and another key loaded where the old one was, under"
         " either provider - the verdict follows the key that is configured now; RSA keys of 2048 / 3072 / 4096 bits "
         "under one algorithm in every order through setkey and the callback, with clause genfunction (whether a token "
         "comes out is the function of configuration and clock the specification computes); a memo family: RS256 and "
         "EdDSA (deterministic signatures) - the token just accepted, then the same signature under a payload / a header "
         "altered after signing; every verify/generate is also performed on a freshly created twin configured by "
         "replaying the same configuration calls, and both results are logged; besides reused = fresh, every verdict must"
         " be the one the specification computes from configuration, token and clock (clause C13.function), so a "
         "dependence on hidden state that a fresh object on the same thread shares is seen too. distinct = distinct "
         "sequences.",
    assumptions=ASSUME_COMMON + ["'identically configured' = the same sequence of configuration calls replayed on a new object"],
    level_text="TLC enumerates every history up to the bound; on the specification the configuration a verdict is "
               "computed from is shown to be a function of the configuration calls alone (invariant "
               "ConfigOnlyFromConfigCalls); each history is executed and every verdict (and, for the deterministic "
               "HS256, every token byte for byte) must equal the fresh twin's.",
    level_note="Bounded history length; HS256 keys only (the hidden state the property is about lives in the builder/checker objects, not in the providers).",
    design_ref="DESIGN.md section 7, C13",
)


PROPS["C10"] = dict(
    level="model_checking", exhaustive=True,
    stages=lambda tier, seed: [mc("seq", "MC_C10", "MC_C10_%s.cfg" % tier), gen("apiwalk", G.api_walks(300 if tier == "quick" else 20000, 60), dopts=TRACK)],
    rule=
         "from MC_C10: all sequences of 3 builder configuration calls over an alphabet of 19 (quick) / 35 (thorough) "
         "calls - header set (typ as string and as integer, user-set alg as string and as boolean, kid) and delete, claim"
         " set (same-named iat/exp/nbf, sub, bool; a member that is itself an object replaced by a whole-object set (the "
         "later object stands, it is not merged); JSON reals that need 17 significant digits - the driver projects reals "
         "with %.17g) and delete, enable_iat 0/1, time_offset for exp/nbf in {-5, 0, 1, 60, 3600, 2^31, 2^32+5, a "
         "century} and for an invalid claim, setkey (HS256 oct, RS256 private, RS256 public-only, ES256, none, remove), "
         "setcb with two mutating programs and removal (setcb(NULL, NULL); a callback that still runs afterwards, with no"
         " context, leaves a mark in the token that the specification's token lacks), clock changes - with a generate "
         "after every call, plus all pairs over the full alphabet. Every token is decoded by the driver (segments, "
         "canonical base64url, header and payload objects, signature checked against every loaded key) and the builder's "
         "header and claim objects are read back after each generate. distinct = distinct sequences.",
    assumptions=ASSUME_COMMON,
    level_text="Bounded-exhaustive over builder configuration histories: TLC computes what each generate must return "
               "(header with alg forced and typ defaulted, claims with iat/nbf/exp overriding, callback edits visible "
               "in that token only) and every produced token, decoded independently, must equal it; the builder must "
               "read back unchanged.",
    level_note="Sequence length 3 with a generate after each step; header/claim values from a small universe (C15 covers the value space).",
    design_ref="DESIGN.md section 7, C10",
)


PROPS["C05"] = dict(
    level="model_checking", exhaustive=False,
    stages=lambda tier, seed: [
        mc("trees", "MC_C05", "MC_C05_%s.cfg" % tier, expand=G.c05_trees, target_ops=20000),
        mc("ecdsa", "MC_C05", "MC_C05_ec_%s.cfg" % tier, expand=G.repeat_tail(2, 500 if tier == "quick" else 20000, 250)),
        mc("faults", "MC_C05", "MC_C05_fault.cfg", expand=G.c05_trees, dopts=dict(extra=("--fault", "--fault-only", "Generate"), timeout=60), target_ops=1),
    ],
    rule=
         "from MC_C05: (key, algorithm) pairs of every supported type x (signing provider, verifying provider) in "
         "{openssl, gnutls}^2 x header tree class x claim tree class {flat, nested depth 6, unicode (+ empty, 63-bit "
         "integers, strings to 64 KiB in thorough)} x time configuration {default, exp+nbf offsets with clock advance, "
         "iat off, expiry a century / 2^31+1000 s ahead, exp claims of year 9999 and LONG_MAX, the application's own iat "
         "with the automatic one off and on, offsets switched on and off again with 0 / -1 (a time claim nobody asked for"
         " is not in the token)}; plus an application-set typ / kid / crit header of every JSON type (integer, boolean, "
         "empty string, object, array) and JSON text with the escape \\u0000 inside strings given to the builder's header "
         "and claims (taken or refused, what is generated must verify); generate, then verify on a checker holding the "
         "public form with a callback that reads header and claims. Integers beyond 2^53 are in the quick trees too. JSON"
         " trees are seeded random per case; what the builder was given, what the token carries and what the callback "
         "read are digested by one canonicaliser (sorted, compact) after removing alg/typ/iat/nbf/exp, which are compared"
         " member by member. Stage 'faults': 4 algorithms x both providers x 2 time configurations with EVERY allocation "
         "request made inside jwt_builder_generate failing once (fault enumeration as in C17, restricted to that call): "
         "whatever token is returned although an allocation failed carries what the builder was given plus "
         "alg/typ/iat/nbf/exp. Stage 'ecdsa': 500 (quick) / 20000 (thorough) generate+verify pairs per curve and signing "
         "provider; coverage.short_rs counts signatures whose r or s has a leading zero byte. distinct = distinct "
         "scripts.",
    assumptions=ASSUME_COMMON + ["JSON equality is decided on SHA-256 digests of jansson's canonical dump computed by the driver for all three sides"],
    level_text="The behaviour matrix (key/alg x provider pair x tree class x time configuration) is enumerated by TLC, "
               "which also shows that on the specification every generated token is accepted by the matching checker; "
               "values inside a tree class are sampled. Each behaviour is executed: generate must succeed, the token "
               "must verify under the other provider too, and builder-given = token = callback-read content.",
    level_note="Fixture keys (fresh keys are used by the C08/C20 checks); tree contents sampled, not enumerated.",
    design_ref="DESIGN.md section 7, C05",
)


_ENVS = ["openssl", "gnutls", "GnuTLS", "gnutls ", "mbedtls", "", "x", "opensslgnutls"]


def _c12_stages(tier, seed):
    st = [mc("matrix", "MC_C12", "MC_C12_%s.cfg" % tier, expand=G.replicate(2 if tier == "quick" else 60), dopts=TRACK)]
    for i, v in enumerate(_ENVS):
        st.append(gen("env%d" % i, (lambda vv: (lambda seed: [[dict(op="OpsEnv", want=vv)]]))(v), dopts=dict(env={"JWT_CRYPTO": v}), exhaustive=True))
    st.append(gen("envunset", lambda seed: [[dict(op="OpsEnv", want="~")]], exhaustive=True))
    st.append(gen("rotation", G.c12_rotation(2 if tier == "quick" else 12), dopts=dict(env=G.ZEROQ)))
    return st


PROPS["C12"] = dict(
    level="model_checking", exhaustive=True,
    stages=_c12_stages,
    rule=
         "from MC_C12, run under the tracking allocator (a block it never handed out that reaches its free() is an "
         "abort): (A) one forged token per cell, kept in a slot and verified under both providers in both orders (key "
         "loaded under either provider): every common (key, algorithm) pair (oct keys of 32..100 octets: equal to and "
         "longer than the hash output, up to and beyond the block size) x {valid, empty, garbage, not base64, flipped "
         "first/any bit, truncated, extended with zero/random bytes, signed over other text, other key, sibling "
         "algorithm, ES: zero-extended r||s and DER} and header/payload altered after signing; (A') the same with key "
         "attributes neither provider consumes (use, key_ops of six kinds) and the PRIVATE form of the key as "
         "verification key; (A'') the provider is the process's: after every selection a second thread reads, and in some"
         " scripts makes, the selection - both threads see the same provider; (B) deterministic algorithms (HS*, RS*, "
         "EdDSA): the same builder generates under provider 1 and provider 2, token digests must be equal and each "
         "provider verifies both; randomised ones (PS*, ES*): cross acceptance; (B') the same with a 9216-bit RSA key "
         "(larger than any size a provider may have provided for); (C) all pairs of set_crypto_ops/_t calls over 12 names"
         " (exact, case variants, padded, prefixes, unknown, empty) and ids -1..5, 99; (D) one driver process per "
         "JWT_CRYPTO value {openssl, gnutls, GnuTLS, 'gnutls ', mbedtls, '', x, opensslgnutls, unset}. (E) history: an "
         "unusable JWKS member, a refused RS256 and a refused ES512 token under either provider before the verdict "
         "comparison. Each matrix cell is concretised 2 (quick) / 60 (thorough) times. (F) private OKP keys whose x "
         "member is ANOTHER key's public half: identical tokens from both providers, mutual acceptance, acceptance by the"
         " true public key. Stage 'rotation': sign with key A, free its keyring, load key B (same type for six pairs, "
         "another type for three), sign, verify under both providers, 2..3 (quick) / up to 13 (thorough) rotations per "
         "script - run with a zero ASan quarantine so that the freed key's address is reused at once; the token must "
         "carry the current key's signature and both providers must accept it.",
    assumptions=ASSUME_COMMON,
    level_text="TLC enumerates the matrix and checks on the specification that verdicts and deterministic tokens do "
               "not depend on the provider variable and that the provider changes only on an exact name/id; each "
               "cell is executed and the two providers' verdicts on the same token bytes (and their tokens for "
               "deterministic algorithms) are compared in TLC.",
    level_note="ES256K is outside the common support matrix (GnuTLS lacks it). Non-canonical base64 of a valid signature is neither 'RFC-valid' nor 'not validly signed' and is excluded.",
    design_ref="DESIGN.md section 7, C12",
)


PROPS["C06"] = dict(
    level="exploration", leak_every=20, exhaustive=False,
    stages=lambda tier, seed: [
        mc("classes", "MC_C06", "MC_C06_%s.cfg" % tier, expand=G.replicate(1 if tier == "quick" else 20)),
        gen("fuzz", G.c06_fuzz(800 if tier == "quick" else 40000, 250), target_ops=60000, dopts=TRACK),
        gen("apiwalk", G.api_walks(300 if tier == "quick" else 20000, 60), dopts=TRACK),
    ],
    rule=
         "(classes) from MC_C06: every shape (NULL, empty, 0/1/2/3/4 dots, leading dot) x header class (object, "
         "whitespace, not JSON, array, scalar, string, null, not base64, length 1 mod 4, empty, {}, duplicate keys) x "
         "payload class x 20 alg spellings (incl. missing, each non-string JSON type, printf conversions, family prefix, "
         "one more character, a NUL character inside, names of 240 / 248 / 300 / 1500 / 70000 characters) x signature "
         "class, one dimension at a time plus header x payload pairs, plus checkers expecting iss / sub / aud x that "
         "claim as every JSON type (string, empty string, integer, boolean, null, real, array, object, string with NUL), "
         "against key-less, HS256, RS256, ES256 and EdDSA checkers on both providers: the class is known by construction,"
         " so rejection is judged; exp / nbf at both ends of the 64-bit range (LONG_MIN, LONG_MAX, +-1, +-299, +-300, "
         "+-2^40) against checkers with a leeway of 1, 300 and 2^40 seconds; (fuzz) seeded byte-level mutations "
         "(set/delete/insert of structural and high-bit bytes, truncation, duplication, padding to 64 KiB) of tokens the "
         "library generated itself, and random byte strings of 0..64 KiB, 250 per case, under the same eight "
         "configurations: these constrain only 'the call returns, no sanitizer report, no leak'. Under the application "
         "allocator every block obtained from it during a case must have gone back to it when the case ends (clause "
         "allocleak: a block released with libc free() instead is a leak to a pool or quota allocator). Recorded under "
         "ASan+UBSan, LeakSanitizer check every 20 cases and at exit, 60 s watchdog per call. distinct = distinct scripts"
         " (fuzz cases differ in every token).",
    assumptions=ASSUME_COMMON + ["byte-level inputs are generated without coverage feedback; this is weaker than a coverage-guided fuzzer"],
    level_text="Exploration: the structural classes of the specification's Parse function are enumerated completely "
               "and judged (non-zero for every malformed class); memory safety, termination and leak freedom are "
               "observed on those and on seeded byte-level fuzz under sanitizers.",
    level_note="The first sentence of C06 quantifies over all byte strings; TLA+ contributes structured generation and the functional oracle, not coverage of the byte space.",
    design_ref="DESIGN.md section 7, C06",
)


PROPS["C07"] = dict(
    level="model_checking", leak_every=10, exhaustive=False,
    stages=lambda tier, seed: [
        mc("defects", "MC_C07", "MC_C07_%s.cfg" % tier),
        gen("fuzz", G.c07_fuzz(300 if tier == "quick" else 20000, 60)),
        gen("alloc", G.c07_custom_alloc(), dopts=dict(extra=("--track-alloc",))),
        gen("switch", G.c07_switch(), dopts=dict(leak_every=1)),
    ],
    rule=
         "(defects) from MC_C07: ten valid baselines (oct, RSA private/public/PSS, P-256 private, P-384, P-521, "
         "secp256k1, Ed25519 private, Ed448 public) x every member of that key type and the common members (kty, alg, "
         "use, key_ops, kid; n,e,d,p,q,dp,dq,qi; crv,x,y,d; k) x 14 classes (absent, null, integer, valid base64url of 3 "
         "KiB (huge), real, bool, array, object, empty string, not base64url, length 1 mod 4, too short, too long, "
         "unknown string, foreign value) - one member (quick) or two members (thorough) deviating - as a single JWK and "
         "between two good keys in a JWKS; every entry point (load, load_strn, create, create_strn, fromfile, fromfp, "
         "create_fromfile, create_fromfp) x document class (JWKS, JWKS with extra members, top-level array, 10 non-JSON "
         "texts, 10 JSON documents that are not JWK objects, keys array of non-objects). (fuzz) 63 texts carrying printf "
         "conversions in unterminated tokens (quoted by the parser's error text) and in member values through every entry"
         " point, seeded random bytes, random JSON over JWK member names and byte-mutated JWKS texts (mutations insert "
         "conversions too), judged only for 'returns, no sanitizer report, no leak, each new item errored-with-message or"
         " usable'. ASan+UBSan, leak check every 10 cases. (alloc) keys of every type, well-formed and defective, through"
         " every entry point and through find / free_bad / item_free / free_all / jwks_free under both providers with an "
         "application allocator that is not libc's: the driver tracks every block it handed out, and a block it never "
         "handed out that reaches its free() from inside a library call is an abort. After every case the lowest free "
         "descriptor is where it was when the case began (a FILE or descriptor left open is a leak too: clause fdleak). "
         "Stage 'switch': keys of every type loaded under one provider and released under the other through every removal"
         " route, leak check after every case. Defect classes include member values with characters beyond ASCII (valid "
         "UTF-8). distinct = distinct scripts.",
    assumptions=ASSUME_COMMON,
    level_text="The JWK defect lattice (document class x key type x member x value class) is enumerated completely by "
               "TLC and executed: set error and no items for non-JSON, exactly one item per element in order, every "
               "new item either flagged with a message or usable (known kty, key material parses). Memory safety is "
               "observed under sanitizers on these and on seeded fuzz.",
    level_note="A 'keys' member that is not an array is unconstrained (the statement does not cover it). Byte-level inputs are not coverage-guided.",
    design_ref="DESIGN.md section 7, C07",
)


PROPS["C08"] = dict(
    level="model_checking", exhaustive=False,
    stages=lambda tier, seed: [
        mc("matrix", "MC_C08", "MC_C08_%s.cfg" % tier),
        mc("fresh", "MC_C08", "MC_C08_%s.cfg" % tier, expand=G.c08_fresh(1 if tier == "quick" else 4, every=9 if tier == "quick" else 2)),
    ],
    rule=
         "from MC_C08: every fixture key (RSA 512..4096 incl. odd sizes, P-256/384/521, secp256k1, Ed25519, Ed448; oct "
         "1..512 bytes) x private and public form x metadata (alg matching / none / unknown / foreign, kid, use "
         "sig/enc/other, key_ops subsets incl. unknown names) with the default encoding, and x integer encoding (fixed "
         "width, minimal, zero-padded by 1 and 3 bytes) x extra-member set (none, members of other key types, unknown "
         "members; unknown members of every JSON type - true, false, number, real, null, object - for every key type) "
         "with plain metadata; OKP keys whose x or d begins with a zero octet, oct keys whose first / last octet is NUL, "
         "newline, space, '=' or 0xff, oct keys whose k is written WITH '=' padding (1..65 octets: the octets are the "
         "decoding of k); as a single JWK and inside a JWKS; RSA keys outside the usual (a 72-bit public exponent, a "
         "9216-bit modulus, a short private exponent) in every integer encoding; key_ops lists of every single operation,"
         " every ordered pair (incl. a repeated name), every set of seven and the reverse order on an oct, an EC and an "
         "OKP key; and 'history' cells: each of five defective keys (point not on the curve, unknown curve, short "
         "coordinate, incomplete RSA private key, short OKP key) imported before a well-formed key of every type - in the"
         " same set and by an earlier call on the same thread. Stage 'fresh' repeats every 9th (quick) / every 2nd "
         "(thorough, 4 times) cell with key material generated on the spot (OpenSSL keygen, fresh oct bytes). The driver "
         "exports with its own exporter, parses the item's PEM with OpenSSL and compares public and private components "
         "with the exported key. distinct = distinct scripts.",
    assumptions=ASSUME_COMMON + ["equality of key components (big numbers, octets) is computed by the driver's projection against the key it exported; TLC judges the projected record"],
    level_text="The structural matrix (type x size x form x metadata x encoding x extras) is enumerated by TLC and each "
               "cell executed; every reported attribute must equal what the JWK states and the key material must "
               "be identical in public and private components. Key material itself is sampled (fixtures + fresh keys).",
    level_note="Empty and non-ASCII kid values are not enumerated (the statement is silent on whether an empty kid is a kid).",
    design_ref="DESIGN.md section 7, C08",
)


PROPS["C11"] = dict(
    level="model_checking", leak_every=5, exhaustive=True,
    stages=lambda tier, seed: [
        mc("batches", "MC_C11", "MC_C11_%s.cfg" % tier, target_ops=7),
        gen("random", G.c11_random(40 if tier == "quick" else 600, 40)),
        gen("users", G.c11_users(300 if tier == "quick" else 1500)),
        gen("sweep", G.c11_sweep(1100 if tier == "quick" else 6200)),
    ],
    rule=
         "On the specification (MC_C11): Dec(Enc(b)) = b, unpadded URL-safe output of the RFC length, rejection of "
         "foreign bytes ahead of '=' and of lengths 1 mod 4, canonical decoding - for all byte strings of length 1..2 and"
         " all 3-byte strings over a byte set (12 values quick / all 256 for lengths 1..2 and 34 for length 3 thorough) "
         "and all texts of length 1..3(4) over a 24-character class alphabet and 1..5 over an 8-character one. Against "
         "the implementation (CodecBatch; inputs regenerated and counted in TLC): encode of every byte string of length "
         "0, 1, 2, of every 3-byte block with first byte in {0, 77, 251, 255} (quick) / every first byte = all 16.8 M "
         "blocks (thorough), 4-byte strings with 6 prefixes; decode of every text of length 0..4 over a 32-character "
         "alphabet (alphabet edges, both alphabets, '=', foreign bytes, high-bit bytes incl. the high-bit twins of "
         "alphabet characters), lengths 5..8 over 8 characters, length 4 over 40 characters (thorough), and valid texts "
         "of length 2, 3, 4, 6, 7, 8 with ONE position ranging over all 255 byte values. Plus seeded random strings up to"
         " 64 KiB (valid, one foreign byte, length 1 mod 4, standard alphabet, padded) in exact-size heap buffers under "
         "ASan. Stage 'sweep': decode of the valid text of EVERY byte length 0..1100 (quick) / 0..6200 (thorough), "
         "unpadded, padded, with one more character and (to 96 bytes) followed by a run of 3..16 '=', and encode of the "
         "bytes (where an implementation switches between a fixed buffer and the heap). Stage 'users' (JSON lengths to "
         "300 quick / 1500 thorough): the codec through its callers - token segments of every JSON length (unsigned and "
         "HS256), oct keys of every length, and JWK member texts that are not base64url although a prefix is (an escaped "
         "NUL, then anything), through every entry point: no key may come out. distinct = distinct batch descriptors / "
         "random cases.",
    assumptions=ASSUME_COMMON + ["jwt_base64uri_encode/_decode are called directly (internal symbols of the static library)"],
    level_text="The codec is transcribed into TLA+ (Base64.tla); TLC proves the inverse and rejection laws on the "
               "transcription over the bounded domains and checks every recorded (input, output) pair of the real "
               "functions against it, the enumerated domains being complete (counts checked in TLC).",
    level_note="The full 2^32 space of 4-character groups is covered by class representatives (24/40-character alphabets), not enumerated; texts containing '=' are only required to be rejected when a foreign byte precedes the '=' or the length is 1 mod 4.",
    design_ref="DESIGN.md section 7, C11",
)


PROPS["C17"] = dict(
    level="fault_enumeration", exhaustive=True,
    stages=lambda tier, seed: [mc("scenarios", "MC_C17", "MC_C17_%s.cfg" % tier, dopts=dict(extra=("--fault",), timeout=60), target_ops=1)],
    rule=
         "scenarios are behaviours of the specification printed by TLC from MC_C17: loading each key type through several"
         " entry points (incl. a defective key, a non-JSON text, find/free_bad/item_free), builder scenarios (claims and "
         "headers of every value type incl. JSON merge and getters, time offsets, callbacks setting claims or the key, "
         "HS256/RS256/ES256/EdDSA/none), checker scenarios (accepting and rejecting tokens: bad signature, expired, "
         "missing aud, unsigned-with-key; callback reading the token and selecting the key; expired / not-yet-valid / "
         "wrong-issuer tokens whose claims the callback rewrites into acceptable ones), a generate-verify round trip; on "
         "OpenSSL (quick; asymmetric checker scenarios also on GnuTLS) / both providers (thorough). 'Reconfiguration' "
         "scenarios repeat a configuration call on an object that already holds a value (replaced expectation, second "
         "setkey / leeway / callback): after a configuration call that met the fault the REST of the scenario runs "
         "without faults, and a checker must not accept a token that neither its old configuration (the scenario re-run "
         "without that call) nor its new one accepts (clause state-after-failure). For each scenario the driver counts "
         "the allocation requests N made by libjwt and jansson through jwt_set_alloc's allocator inside library calls and"
         " re-runs it once per k in 0..N-1 with request k returning NULL, each in a forked child under ASan/UBSan, "
         "stopping after the operation in which the fault fired and then freeing everything. A load that still reports "
         "success must yield the items of the fault-free run, including their projected key material (PEM present and "
         "parseable, components equal). evaluations = judged events; coverage.fault_runs = number of (scenario, k) runs; "
         "distinct_nontrivial = distinct scenarios.",
    assumptions=ASSUME_COMMON + ["only allocations routed through jwt_set_alloc (libjwt and jansson) are failed; OpenSSL/GnuTLS internal allocations are not"],
    level_text="Exhaustive over the fault position k for every scenario: each operation of a faulted run must either "
               "give the fault-free result (same verdict / same decoded token content / same list) or report failure "
               "through its documented channel; a crash or sanitizer report in the child is a violation.",
    level_note="Single fault per run; the scenario ends with the faulted operation (objects are then freed). Leaks on error paths are not judged (C17 does not state them).",
    design_ref="DESIGN.md section 7, C17",
)


PROPS["C18"] = dict(
    level="exploration", variant="tsan", exhaustive=False, call_timeout=300,
    stages=lambda tier, seed: [mc("threads", "MC_C18", "MC_C18_%s.cfg" % tier, target_ops=1,
                                  dopts=dict(timeout=60 if tier == "quick" else 300,      # (a quick case takes a second or two)
                                             env={"TSAN_OPTIONS": "halt_on_error=1:exitcode=66:report_signal_unsafe=0:second_deadlock_stack=1"}))],
    rule=
         "On the specification (MC_C18): all interleavings of three threads, each taking generate / verify own token / "
         "verify damaged token on its own builder and checker over one shared keyring; every result equals the result of "
         "the same call made alone; the keyring, provider and clock are never written. Against the implementation: 12 "
         "(GnuTLS) / 13 (OpenSSL) threads at once - HS256, HS512, RS256, PS256, ES256, ES384, ES512, EdDSA (Ed25519, "
         "Ed448), ES256K, three algorithms twice, and two threads whose every signing request the provider refuses "
         "(ES256K under GnuTLS, ES256 with an Ed25519 key) - each with its own builder and checker, sharing one keyring "
         "of 12 keys, 150 (quick) / 2000 (thorough) iterations of claim_set + generate + verify + verify damaged, random "
         "start skew, 6 (quick) / 30 (thorough) repetitions per provider - in one repetition of three the threads hold "
         "their keys, in one they look them up by kid in the shared keyring from their callbacks at every call "
         "(jwks_find_bykid), in one they walk the shared keyring by index (jwks_item_count / jwks_item_get) -, libjwt and"
         " driver built with ThreadSanitizer (halt on first report); the same calls are also made one after another - "
         "before the threads start in every other repetition, AFTER them in the others, so that whatever the library "
         "initialises lazily is initialised by racing threads - and both result lists (verdicts, and token digests for "
         "deterministic algorithms) are compared in TLC. distinct = distinct (provider, repetition) runs; evaluations = "
         "Thread events judged.",
    assumptions=ASSUME_COMMON + ["data races are detected by ThreadSanitizer on the schedules that actually occurred; OpenSSL, GnuTLS and jansson are not instrumented"],
    level_text="Exploration: schedules of the real code are sampled under a race detector, not enumerated; the model-"
               "checked part is the design (no shared mutable state between separate builders/checkers).",
    level_note="A TSan report anywhere in the process halts the run and is reported as a violation; the unchanged tree produces none.",
    design_ref="DESIGN.md section 7, C18",
)


PROPS["C20"] = dict(
    level="model_checking", variant="asan", exhaustive=False,
    stages=lambda tier, seed: [proof("inductive", "ToolsInd", [("Init", "IndInv", 0, "Next"), ("IndInit", "IndInv", 1, "Next"),
                                                                 ("IndInit", "ExitOK", 0, "Next")]),
                               mc("cells", "MC_C20", "MC_C20_%s.cfg" % tier, dopts=dict(runner="tools"), target_ops=12)],
    rule=
         "On the specification: Apalache discharges the inductive invariant of spec/apalache/ToolsInd.tla (exit status "
         "zero iff no token failed, token lists of any length); TLC (Tools.tla via MC_C20): the jwt-verify machine over "
         "token lists good^g bad^b in three orders for g in {0,1,3} and b in {0,1,2,255,256,257,512} (quick) / every b in"
         " 0..520 (thorough): exit status zero iff every token verified, failure counter exact. Against the tools built "
         "from the working tree: jwt-verify over the same counts through argv and stdin in two orders (tokens made by "
         "jwt-generate; failing ones by damaging the signature, or - lines and arguments that BEGIN with a good token - "
         "by appending a blank, a TAB or a CR and more text, a second token, or a leading blank), plus 1, 3 and 600 good "
         "tokens with 0 or 2 bad ones in each output mode (plain, -v, -v -p CMD; short and long spellings) under the "
         "usual 1024-descriptor limit; jwt-generate | jwt-verify round trips for ten key/alg pairs (key with and without "
         "alg attribute, so that -a/--algorithm is exercised) x short/long option spelling on either side x --json x "
         "--no-iat, with -c/--claim of every type, incl. integer claims beyond 32 bits (exp in 2100, nbf in 1840, 2^53 + "
         "1); key2jwk on every fixture key file (RSA 512..4096, every curve incl. twelve EC keys whose x, y or d has a "
         "leading zero byte, Ed25519, Ed448; private and public PEM; oct files of 32..512 bytes), and an id-RSASSA-PSS "
         "key file (private and public): one key, imported by the library without error, same public and private "
         "components (driver projection), fixed-width EC x/y/d, minimal-length RSA members (no leading zero octet; "
         "fixture rsa2048z has a private exponent one octet short); jwk2key of that JWKS, and the file it writes "
         "converted again must still be the same key, of the same type (rsaEncryption / id-RSASSA-PSS); key2jwk with "
         "several files in one invocation (every order of an oct, an RSA, an EC and an Ed25519 file, all pairs incl. "
         "repeated types): the i-th JWK must denote the i-th file's key. distinct = distinct cells.",
    assumptions=ASSUME_COMMON + ["tool output is decoded by the Python runner (bin/vtools.py), which logs and never judges; key identity is decided by the driver's projection against the key it exported"],
    level_text="The exit-status relation is model-checked on the tool machine for every count up to 520; every cell "
               "is executed against the real tools and the logged exit statuses, token shapes, member widths and key "
               "identities are judged in TLC.",
    level_note="Fixture keys (the leading-zero EC keys are committed fixtures so that the width clause is exercised on every run); jwk2key's file naming and overwrite options are not modelled.",
    design_ref="DESIGN.md section 7, C20",
)


# non-gating: whole-API random walks validated with every clause (spec hygiene)
PROPS["WALK"] = dict(
    level="exploration", unclaimed="not a property: whole-API random walks used with --trace-prop FULL to keep the specification honest",
    stages=lambda tier, seed: [gen("api", G.api_walks(1500 if tier == "quick" else 50000, 60))],
    rule="random API sessions", assumptions=ASSUME_COMMON, level_text="-", level_note="-",
)


for _p in ("C01", "C02", "C03", "C04", "C06", "C09", "C10", "C13", "C14", "C19"):
    PROPS[_p]["rule"] += APIWALK_NOTE
    PROPS[_p]["exhaustive"] = False
