#!/bin/bash
# Build libjwt (static lib + tools) from the working tree of $VERIF_REPO with the
# repository's own CMake, out of tree, cached per source hash and variant.
# usage: build.sh <variant: asan|tsan|plain>   -> prints the build directory
set -e
VARIANT=${1:-asan}
REPO=${VERIF_REPO:-/repo}
VERIF=$(cd "$(dirname "$0")/.." && pwd)
WORK=${VERIF_WORK:-$VERIF/.work}
mkdir -p "$WORK/build"
HASH=$( (cd "$REPO" && find CMakeLists.txt cmake libjwt include tools -type f -print0 | sort -z | xargs -0 sha256sum; echo "$REPO") | sha256sum | cut -c1-16)
DIR="$WORK/build/$HASH/$VARIANT"
if [ -f "$DIR/.ok" ]; then echo "$DIR"; exit 0; fi
# one builder at a time per dir
mkdir -p "$DIR"
exec 9>"$DIR/.lock"
flock 9
if [ -f "$DIR/.ok" ]; then echo "$DIR"; exit 0; fi
case "$VARIANT" in
  asan)  SAN="-fsanitize=address,undefined -fno-sanitize-recover=undefined -fno-omit-frame-pointer -O1 -g" ;;
  tsan)  SAN="-fsanitize=thread -fno-omit-frame-pointer -O1 -g" ;;
  plain) SAN="-O1 -g" ;;
  *) echo "unknown variant $VARIANT" >&2; exit 2 ;;
esac
LOG="$DIR/build.log"
if ! ( cmake -G Ninja -S "$REPO" -B "$DIR" -DCMAKE_C_COMPILER="$VERIF/bin/ccwrap" -DCMAKE_BUILD_TYPE=None \
        -DWITH_TESTS=OFF -DWITH_GNUTLS=ON -DWITH_LIBCURL=OFF -DWITH_MBEDTLS=OFF \
        -DCMAKE_DISABLE_FIND_PACKAGE_Doxygen=ON \
        -DCMAKE_C_FLAGS="$SAN -DLIBJWT_VERIF -Wno-error" \
        -DCMAKE_EXE_LINKER_FLAGS="$SAN" >"$LOG" 2>&1 \
   && cmake --build "$DIR" --target jwt_static jwt-verify jwt-generate key2jwk jwk2key -j16 >>"$LOG" 2>&1 ); then
   echo "BUILD FAILED, see $LOG" >&2; tail -30 "$LOG" >&2; exit 2
fi
touch "$DIR/.ok"
# prune builds of other hashes
for d in "$WORK"/build/*; do [ "$d" = "$WORK/build/$HASH" ] || rm -rf "$d"; done
echo "$DIR"
