#!/bin/bash
# The repository's own test suite with the verification guard OFF.
set -e
B=${VERIF_WORK:-/verif/.work}/baseline_off
rm -rf "$B"; mkdir -p "$B"
cmake -G Ninja -S ${VERIF_REPO:-/repo} -B "$B" -DCMAKE_C_FLAGS=-Wno-error >/dev/null
cmake --build "$B" -j16 >/dev/null
ctest --test-dir "$B" -j8 --timeout 900
rc=$?
[ -n "$KEEP_BASELINE" ] || rm -rf "$B"
exit $rc
