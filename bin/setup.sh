#!/bin/bash
# Offline setup: syntax-check the TLA+ modules and build libjwt + driver once.
set -e
cd "$(dirname "$0")/.."
mkdir -p .work evidence
for f in spec/*.tla spec/mc/*.tla; do
  [ -f "$f" ] || continue
  ( cd "$(dirname "$f")" && tla-sany "$(basename "$f")" >/dev/null 2>&1 ) || { echo "SANY failed on $f" >&2; (cd "$(dirname "$f")" && tla-sany "$(basename "$f")" | tail -20 >&2); exit 1; }
done
bin/build_drv.sh asan >/dev/null
echo setup ok
