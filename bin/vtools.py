"""Runner for the command-line tools (C20).  Executes the operations TLC printed
(ToolVerify / ToolRoundTrip / ToolKeyConv) against jwt-verify, jwt-generate,
key2jwk and jwk2key built from the working tree, and logs one event per
operation.  Key material comes from the driver's own exporter (jwtdrv
--export-jwk / --export-key); whether a JWK denotes the same key is decided by
the driver's projection (a Load of the tool's output against the pool key).
No verdicts here: events are validated by TLC (spec/Trace.tla, PROP=C20)."""
import base64
import json
import os
import shutil
import subprocess
import tempfile


def _b64len(s):
    s = s + "=" * (-len(s) % 4)
    try:
        return len(base64.urlsafe_b64decode(s))
    except Exception:
        return -1


class Runner:
    def __init__(self, builddir, drv, workdir, seed):
        self.tools = os.path.join(builddir, "tools")
        self.drv = drv
        self.work = workdir
        self.seed = seed
        self.env = dict(os.environ)
        self.env.setdefault("ASAN_OPTIONS", "detect_leaks=0:exitcode=23")
        self.env.setdefault("UBSAN_OPTIONS", "halt_on_error=1")
        self.keys_dir = os.path.join(os.path.dirname(os.path.dirname(os.path.abspath(__file__))), "harness", "keys")
        os.makedirs(workdir, exist_ok=True)

    @staticmethod
    def _limits():
        # the usual interactive descriptor limit, whatever the sandbox's own is
        import resource
        soft, hard = resource.getrlimit(resource.RLIMIT_NOFILE)
        resource.setrlimit(resource.RLIMIT_NOFILE, (min(1024, hard), hard))

    def run(self, argv, stdin=None, timeout=300):
        try:
            r = subprocess.run(argv, input=stdin, capture_output=True, env=self.env, timeout=timeout, preexec_fn=self._limits)
            return r.returncode, r.stdout, r.stderr
        except subprocess.TimeoutExpired:
            return -9, b"", b"timeout"

    def drv_export(self, kind, kd):
        rc, out, err = self.run([self.drv, "--keys", self.keys_dir, "--export-" + kind, json.dumps(kd)])
        if rc != 0:
            raise RuntimeError("driver export failed: %r" % err[-300:])
        return out

    def keyfile(self, kd, d):
        p = os.path.join(d, "key.json")
        with open(p, "wb") as f:
            f.write(self.drv_export("jwk", kd))
        return p

    def import_check(self, jwks_text, kd, d):
        """Load `jwks_text` through the driver against descriptor kd; return the first new item's projection."""
        sp = os.path.join(d, "imp.script")
        tp = os.path.join(d, "imp.trace")
        if os.path.exists(tp):
            os.remove(tp)
        op = dict(op="Load", ring=0, via="create_strn", doc="anyraw", keys=[kd], hex=jwks_text.encode().hex())
        with open(sp, "w") as f:
            f.write(json.dumps(["imp", op]) + "\n")
        rc, out, err = self.run([self.drv, "--keys", self.keys_dir, "--script", sp, "--out", tp, "--tmp", d])
        item = dict(err=1, kty="~", bits=0, priv=0, mat=dict(pub=0, prv=0, pem=0, pemok=0, pempriv=0))
        if os.path.exists(tp):
            for line in open(tp):
                e = json.loads(line)
                if e.get("e") == "Load" and e.get("new"):
                    item = e["new"][0]
        return dict(err=item["err"], kty=item["kty"], bits=item["bits"], priv=item["priv"], crv=item.get("crv", "~"),
                    alg=item.get("alg", "~"), mat=item["mat"], n=len(e.get("new", [])) if os.path.exists(tp) else 0)

    # ------------------------------------------------------------------ ops
    def make_tokens(self, kd, alg, d, n_good, n_bad):
        kf = self.keyfile(kd, d)
        argv = [os.path.join(self.tools, "jwt-generate"), "-q", "-k", kf]
        if alg != "~":
            argv += ["-a", alg]
        rc, out, err = self.run(argv + ["-c", "s:sub=tool"])
        tok = out.decode().strip()
        bad = tok[:-2] + ("AA" if not tok.endswith("AA") else "BB")
        return kf, rc, tok, bad

    def tool_verify(self, op):
        d = tempfile.mkdtemp(dir=self.work)
        try:
            kd, alg = op["key"], op["alg"]
            kf, grc, tok, bad = self.make_tokens(kd, alg, d, op["good"], op["bad"])
            bk = op.get("badkind")
            if bk:      # a failing line that begins with the good token
                bad = {"space": tok + " junk", "tab": tok + "\tjunk", "cr": tok + "\rjunk", "two": tok + " " + bad, "lead": " " + tok}[bk]
            g, b = op["good"], op["bad"]
            if op["order"] == "gb":
                toks = [tok] * g + [bad] * b
            elif op["order"] == "bg":
                toks = [bad] * b + [tok] * g
            else:
                toks, gi, bi = [], g, b
                while gi or bi:
                    if bi:
                        toks.append(bad); bi -= 1
                    if gi:
                        toks.append(tok); gi -= 1
            out = op.get("out", "q")
            short = op["mode"] == "argv"
            argv = [os.path.join(self.tools, "jwt-verify")]
            if out == "q":
                argv += ["-q"]
            elif out in ("v", "vp"):
                argv += ["-v"] if short else ["--verbose"]
                if out == "vp":
                    argv += ["-p", "cat >/dev/null"] if short else ["--print=cat >/dev/null"]
            argv += ["-k", kf]
            if alg != "~":
                argv += ["--algorithm=" + alg]
            if op["mode"] == "argv":
                rc, out, err = self.run(argv + toks)
            elif op["mode"] == "stdin":
                rc, out, err = self.run(argv + ["-"], stdin=("\n".join(toks) + "\n").encode())
            else:   # the last line is not newline-terminated
                rc, out, err = self.run(argv + ["-"], stdin="\n".join(toks).encode())
            ev = dict(op)
            ev.pop("op"); ev.pop("key")
            ev.update(e="ToolVerify", exit=rc, gen_exit=grc, ntok=len(toks), toklen=len(tok))
            return ev
        finally:
            shutil.rmtree(d, ignore_errors=True)

    def tool_roundtrip(self, op):
        d = tempfile.mkdtemp(dir=self.work)
        try:
            kd, alg = op["key"], op["alg"]
            kf = self.keyfile(kd, d)
            lg = op["gopts"] == "long"
            lv = op["vopts"] == "long"
            argv = [os.path.join(self.tools, "jwt-generate")]
            argv += ["--quiet"] if lg else ["-q"]
            argv += ["--key=" + kf] if lg else ["-k", kf]
            if alg != "~":
                argv += ["--algorithm=" + alg] if lg else ["-a", alg]
            argv += (["--claim=s:sub=x", "--claim=i:n=5", "--claim=b:admin=true"] if lg else ["-c", "s:sub=x", "-c", "i:n=5", "-c", "b:admin=true"])
            if op.get("far"):
                argv += (["--claim=i:exp=4102444800", "--claim=i:nbf=-4102444800", "--claim=i:big=9007199254740993"] if lg
                         else ["-c", "i:exp=4102444800", "-c", "i:nbf=-4102444800", "-c", "i:big=9007199254740993"])
            if op.get("json"):
                argv += ["--json={\"aud\":\"a\"}"] if lg else ["-j", "{\"aud\":\"a\"}"]
            if op.get("noiat"):
                argv += ["--no-iat"] if lg else ["-n"]
            grc, out, err = self.run(argv)
            tok = out.decode().strip().splitlines()[-1] if out.strip() else ""
            vargv = [os.path.join(self.tools, "jwt-verify")]
            vargv += ["--quiet"] if lv else ["-q"]
            vargv += ["--key=" + kf] if lv else ["-k", kf]
            if alg != "~":
                vargv += ["--algorithm=" + alg] if lv else ["-a", alg]
            vrc, vout, verr = self.run(vargv + [tok])
            ev = dict(op)
            ev.pop("op"); ev.pop("key")
            ev.update(e="ToolRoundTrip", gen_exit=grc, ver_exit=vrc, tokdots=tok.count("."), toklen=len(tok),
                      kty=kd["kty"], base=kd["base"])
            return ev
        finally:
            shutil.rmtree(d, ignore_errors=True)

    def tool_pin(self, op):
        """jwt-verify -a PIN with a key file whose key carries an alg attribute: the pair is one setkey refuses
        unless both agree (the tool is the library's setkey table on the command line)."""
        d = tempfile.mkdtemp(dir=self.work)
        try:
            kd, pin = op["key"], op["pin"]
            kf = self.keyfile(kd, d)
            grc, out, err = self.run([os.path.join(self.tools, "jwt-generate"), "-q", "-k", kf, "-c", "s:sub=pin"])
            tok = out.decode().strip().splitlines()[-1] if out.strip() else ""
            opt = ["-a", pin] if op.get("spell") == "short" else ["--algorithm=" + pin]
            vrc, vout, verr = self.run([os.path.join(self.tools, "jwt-verify"), "-q", "-k", kf] + opt + [tok])
            return dict(e="ToolPin", attr=kd["alg"], pin=pin, match=int(pin == kd["alg"]), gen_exit=grc, ver_exit=vrc, toklen=len(tok))
        finally:
            shutil.rmtree(d, ignore_errors=True)

    def tool_keyconv(self, op):
        d = tempfile.mkdtemp(dir=self.work)
        try:
            kd = op["key"]
            src = os.path.join(d, "in.key")
            if "pem" in op:                       # fresh key material supplied by the stage
                with open(src, "w") as f:
                    f.write(op["pem"])
            else:
                with open(src, "wb") as f:
                    f.write(self.drv_export("key", kd))
            rc1, out1, err1 = self.run([os.path.join(self.tools, "key2jwk"), "-q", "-o", "-", src])
            ev = dict(e="ToolKeyConv", kty=kd["kty"], bits=kd["bits"], priv=kd["priv"], base=kd["base"], crv=kd["crv"],
                      exit1=rc1, nkeys1=0, xlen=-1, ylen=-1, dlen=-1, exit2=-1, nfiles=0, exit3=-1,
                      imp=dict(err=1, kty="~", bits=0, priv=0, mat=dict(pub=0, prv=0)),
                      imp2=dict(err=1, kty="~", bits=0, priv=0, mat=dict(pub=0, prv=0)))
            try:
                j = json.loads(out1.decode())
                keys = j.get("keys", [])
            except Exception:
                keys = []
            ev["nkeys1"] = len(keys)
            if rc1 != 0 or len(keys) != 1:
                return ev
            k = keys[0]
            for m in ("x", "y", "d"):
                if isinstance(k.get(m), str):
                    ev[m + "len"] = _b64len(k[m])
            if k.get("kty") == "RSA":
                ms = [k[m] for m in ("n", "e", "d", "p", "q", "dp", "dq", "qi") if isinstance(k.get(m), str)]
                try:
                    ev["rsamin"] = int(all(len(x) > 0 and base64.urlsafe_b64decode(x + "=" * (-len(x) % 4))[:1] != b"\x00" for x in ms))
                except Exception:
                    ev["rsamin"] = 0
            jw = os.path.join(d, "out.jwks")
            with open(jw, "wb") as f:
                f.write(out1)
            ev["imp"] = self.import_check(out1.decode(), kd, d)
            od = os.path.join(d, "keys")
            os.makedirs(od)
            rc2, out2, err2 = self.run([os.path.join(self.tools, "jwk2key"), "-d", od, jw])
            files = sorted(os.listdir(od))
            ev["exit2"] = rc2
            ev["nfiles"] = len(files)
            if rc2 == 0 and len(files) == 1:
                rc3, out3, err3 = self.run([os.path.join(self.tools, "key2jwk"), "-q", "-k", "-o", "-", os.path.join(od, files[0])])
                ev["exit3"] = rc3
                if rc3 == 0:
                    ev["imp2"] = self.import_check(out3.decode(), kd, d)
            return ev
        finally:
            shutil.rmtree(d, ignore_errors=True)

    def tool_keyconv_multi(self, op):
        """Several key files in one key2jwk invocation: the i-th JWK must denote the i-th file's key."""
        d = tempfile.mkdtemp(dir=self.work)
        try:
            kds = op["keys"]
            files = []
            for i, kd in enumerate(kds):
                src = os.path.join(d, "in%d.key" % i)
                with open(src, "wb") as f:
                    f.write(self.drv_export("key", kd))
                files.append(src)
            rc1, out1, err1 = self.run([os.path.join(self.tools, "key2jwk"), "-q", "-o", "-"] + files)
            try:
                keys = json.loads(out1.decode()).get("keys", [])
            except Exception:
                keys = []
            ev = dict(e="ToolKeyConvMulti", n=len(kds), exit1=rc1, nkeys1=len(keys),
                      want=[dict(kty=k["kty"], bits=k["bits"], priv=k["priv"]) for k in kds], imps=[])
            if rc1 == 0 and len(keys) == len(kds):
                for k, kd in zip(keys, kds):
                    ev["imps"].append(self.import_check(json.dumps(dict(keys=[k])), kd, d))
            return ev
        finally:
            shutil.rmtree(d, ignore_errors=True)

    def run_case(self, case, out):
        cid = case[0]
        out.write(json.dumps(dict(e="Case", id=cid, n=0)) + "\n")
        for op in case[1:]:
            k = op["op"]
            if k == "ToolVerify":
                ev = self.tool_verify(op)
            elif k == "ToolRoundTrip":
                ev = self.tool_roundtrip(op)
            elif k == "ToolKeyConv":
                ev = self.tool_keyconv(op)
            elif k == "ToolPin":
                ev = self.tool_pin(op)
            elif k == "ToolKeyConvMulti":
                ev = self.tool_keyconv_multi(op)
            else:
                raise RuntimeError("unknown tool op " + k)
            ev.pop("pem", None)
            out.write(json.dumps(ev) + "\n")
        out.write(json.dumps(dict(e="EndCase")) + "\n")


def run_cases(casefile, tracefile, builddir, drv, workdir, seed):
    r = Runner(builddir, drv, workdir, seed)
    n = 0
    with open(tracefile, "w") as out:
        for line in open(casefile):
            r.run_case(json.loads(line), out)
            n += 1
        out.write(json.dumps(dict(e="End", cases=n)) + "\n")
    return n
