SPECIFICATION Spec
CONSTANTS Tier = "quick"
INVARIANT RoundTrip EncShape Rejects Canonical Emit
CHECK_DEADLOCK FALSE
