SPECIFICATION MCSpec
CONSTANT MaxLen = 4
INVARIANT Ordered
INVARIANT Emit
PROPERTY ListSteps
PROPERTY NoBadAfterFreeBad
CHECK_DEADLOCK FALSE
