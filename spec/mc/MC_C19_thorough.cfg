SPECIFICATION MCSpec
CONSTANTS Tier = "thorough" MaxLen = 3
INVARIANT RefVerifyOK RefSetKeyOK Emit
CHECK_DEADLOCK FALSE
