------------------------------ MODULE MC_C06 ------------------------------
(* C06: arbitrary token bytes - memory-safe, terminating, rejected unless  *)
(* well-formed.  TLC enumerates the structural classes of a token (shape x *)
(* header class x alg spelling x payload class x signature class) against  *)
(* every kind of checker; the harness adds seeded byte-level fuzz.         *)
EXTENDS Interp
CONSTANT Tier
Quick == Tier = "quick"

Cfgs == { <<DummyKey, "none">>, <<OctKey(32, "a", NONE, NONE), "HS256">>, <<AsymKey("rsa2048a", 0, NONE, NONE), "RS256">>,
          <<AsymKey("p256a", 0, NONE, NONE), "ES256">>, <<AsymKey("ed25519a", 0, NONE, NONE), "EdDSA">>,
          <<AsymKey("k256a", 0, NONE, NONE), "ES256">>, <<AsymKey("k256a", 0, NONE, NONE), "ES256K">>, <<AsymKey("rsa2048a", 0, "PS256", NONE), "PS256">> }
Shapes == {"3seg", "null", "empty", "0dot", "1dot", "2seg", "lead", "4seg", "4segempty", "4segmid", "4segmidempty", "5segmid", "dupsig"}
HClasses == {"obj", "objws", "notjson", "arr", "scalar", "strjson", "nulljson", "notb64", "len1mod4", "empty", "emptyobj", "dupkeys"}
PClasses == {"obj", "objws", "notjson", "arr", "scalar", "strjson", "nulljson", "notb64", "len1mod4", "empty", "emptyobj"}
Spellings(a) == {a, "none", "None", "hs256", "HS256 ", "bogus", "", NONE, "#int", "#null", "#bool", "#arr", "#obj", "#real", "%s%s%s%s%s%s%n",
                 "#long:240:x", "#long:248:x", "#long:300:x", "#long:1500:x", "#long:70000:x"} \cup NearMiss(a)     \* names longer than any message buffer
SigsFor(k, a) == { EmptySig, Sig("valid", a, k), [Sig("garbage", "HS256", DummyKey) EXCEPT !.cls = "garbage"], Sig("notb64", a, k) }

Base(k, a) == Tok(a, <<>>, <<StrM("sub", "x")>>, IF a = "none" THEN EmptySig ELSE Sig("valid", a, k))
Variants(k, a) ==
  { [Base(k, a) EXCEPT !.shape = sh] : sh \in Shapes }
  \cup { [Base(k, a) EXCEPT !.hdr.cls = hc, !.pay.cls = pcl] : hc \in HClasses, pcl \in PClasses }
  \cup { [Base(k, a) EXCEPT !.hdr.alg = sp] : sp \in Spellings(a) }
  \cup { [Base(k, a) EXCEPT !.sig = sg] : sg \in SigsFor(k, a) }
  \cup { [Base(k, a) EXCEPT !.hdr.alg = sp, !.sig = EmptySig] : sp \in Spellings(a) }
  \cup { [Base(k, a) EXCEPT !.shape = sh, !.hdr.cls = hc] : sh \in {"4seg", "lead", "2seg"}, hc \in {"notb64", "notjson", "arr"} }

Setup(k, a, p) == IF a = "none" THEN <<OpsOp(p), CNewOp>> ELSE <<OpsOp(p), LoadOp(<<k>>), CNewOp, CSetKeyOp(a, 0)>>
C06Scripts == UNION { { Setup(ka[1], ka[2], p) \o <<VerifyOp(t)>> : t \in Variants(ka[1], ka[2]) } : ka \in Cfgs, p \in Providers }
\* checkers that expect iss / sub / aud, offered tokens carrying that claim as every JSON type (RFC 7519 allows an
\* array for aud): the comparison must cope with values that are not strings
TypedClaim(c) == { <<c, "str", "me", W0>>, <<c, "str", "", W0>>, <<c, "int", "", WOf(7)>>, <<c, "bool", "true", W0>>, <<c, "null", "null", W0>>,
                   <<c, "real", "real", W0>>, <<c, "arr", "[\"me\",\"x\"]", W0>>, <<c, "obj", "{\"me\":1}", W0>>, <<c, "strx", "6d00", W0>> }
ClaimScripts ==
  UNION { { Setup(ka[1], ka[2], p) \o <<CClaimSetOp(c, "me"), VerifyOp(Tok(ka[2], <<>>, <<m>>, IF ka[2] = "none" THEN EmptySig ELSE Sig("valid", ka[2], ka[1])))>> :
              c \in {"iss", "sub", "aud"}, m \in TypedClaim("iss") \cup TypedClaim("sub") \cup TypedClaim("aud") }
          : ka \in { <<DummyKey, "none">>, <<OctKey(32, "a", NONE, NONE), "HS256">> }, p \in Providers }
\* time claims at the ends of the 64-bit range against checkers whose leeway is not zero: the comparison must not
\* leave the range whatever the token says (the leeway is the application's, the claim is the sender's)
EdgeInts == {WMin, WAdd(WMin, WOf(1)), WAdd(WMin, WOf(299)), WAdd(WMin, WOf(300)), WMax, WSub(WMax, WOf(1)), WSub(WMax, WOf(299)),
             WSub(WMax, WOf(300)), WSub(WMax, W2p40), WAdd(WMin, W2p40), W0, WOf(-1)}
TimeScripts ==
  UNION { { Setup(ka[1], ka[2], p) \o <<CLeewayOp(c, lee), VerifyOp(Tok(ka[2], <<>>, <<IntM(c, v)>>, IF ka[2] = "none" THEN EmptySig ELSE Sig("valid", ka[2], ka[1])))>> :
              c \in {"exp", "nbf"}, lee \in {WOf(1), WOf(300), W2p40}, v \in EdgeInts }
          : ka \in { <<DummyKey, "none">>, <<OctKey(32, "a", NONE, NONE), "HS256">> }, p \in Providers }
MCSpec == ISpecFam(<<C06Scripts, ClaimScripts, TimeScripts>>)
=============================================================================
