SPECIFICATION MCSpec
CONSTANTS Mode = "seq" MaxLen = 4 Which = "clm"
INVARIANT Emit
PROPERTY RefusedSetNoChange ReadYourWrite DeleteExact GetPure MergeRule
CHECK_DEADLOCK FALSE
