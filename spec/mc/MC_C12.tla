------------------------------ MODULE MC_C12 ------------------------------
(* C12: crypto providers are interchangeable.                              *)
(*  A. the same token (forged once, kept in a slot) is verified under      *)
(*     OpenSSL and under GnuTLS: equal verdicts, for every common key and  *)
(*     algorithm and every token class that is RFC-valid or not validly    *)
(*     signed at all; the key is loaded under either provider.             *)
(*  B. deterministic algorithms: the same builder generates byte-identical *)
(*     tokens under both providers; each verifies the other's.             *)
(*  C. jwt_set_crypto_ops / _t: every name (incl. near misses) and id,     *)
(*     from either current provider.                                       *)
EXTENDS Interp
CONSTANT Tier
Quick == Tier = "quick"

Common ==
  { <<OctKey(32, "a", NONE, NONE), "HS256">>, <<OctKey(64, "a", NONE, NONE), "HS512">>,
    <<OctKey(33, "a", NONE, NONE), "HS256">>, <<OctKey(100, "a", NONE, NONE), "HS512">>, <<OctKey(64, "b", NONE, NONE), "HS384">>,   \* longer than the hash output: every octet is key
    <<AsymKey("rsa2048a", 0, NONE, NONE), "RS256">>, <<AsymKey("rsa2048a", 0, NONE, NONE), "PS256">>,
    <<AsymKey("rsa2052a", 0, NONE, NONE), "RS256">>, <<AsymKey("rsa2052a", 0, NONE, NONE), "PS384">>,     \* modulus not a multiple of 8 bits
    <<AsymKey("p256a", 0, NONE, NONE), "ES256">>, <<AsymKey("p384a", 0, NONE, NONE), "ES384">>, <<AsymKey("p521a", 0, NONE, NONE), "ES512">>,
    <<AsymKey("ed25519a", 0, NONE, NONE), "EdDSA">>, <<AsymKey("ed448a", 0, NONE, NONE), "EdDSA">> }
  \cup (IF Quick THEN {} ELSE
  { <<OctKey(48, "a", NONE, NONE), "HS384">>, <<AsymKey("rsa2048a", 0, NONE, NONE), "RS384">>, <<AsymKey("rsa2048a", 0, NONE, NONE), "RS512">>,
    <<AsymKey("rsa3072a", 0, NONE, NONE), "PS384">>, <<AsymKey("rsa4096a", 0, NONE, NONE), "PS512">>, <<AsymKey("rsa2048a", 0, "PS256", NONE), "PS256">> })
OtherKey(k) == IF k.kty = "oct" THEN [k EXCEPT !.var = "b"]
               ELSE CASE k.kty = "RSA" -> AsymKey("rsa2048b", 0, NONE, NONE)
                      [] k.base = "p256a" -> AsymKey("p256b", 0, NONE, NONE)
                      [] k.base = "p384a" -> AsymKey("p384b", 0, NONE, NONE)
                      [] k.base = "p521a" -> AsymKey("p521b", 0, NONE, NONE)
                      [] k.base = "ed25519a" -> AsymKey("ed25519b", 0, NONE, NONE)
                      [] k.base = "ed448a" -> AsymKey("ed448b", 0, NONE, NONE)
Sibling(a) == CASE a = "HS256" -> "HS512" [] a = "HS512" -> "HS256" [] a = "HS384" -> "HS256"
                [] a \in RSAlgs -> "PS256" [] a \in PSAlgs -> "RS256" [] OTHER -> a
S(cls, a, k) == Sig(cls, a, k)
Classes(k, a) ==
  { S("valid", a, k), S("empty", a, k), S("garbage", a, k) @@ [len |-> 64], S("notb64", a, k),
    S("flipbit", a, k) @@ [where |-> "first"], S("flipbit", a, k) @@ [where |-> "any"], S("flipbit", a, k) @@ [where |-> "last"],
    S("trunc", a, k) @@ [n |-> 1], S("extend", a, k) @@ [n |-> 1, zero |-> 1], S("extend", a, k) @@ [n |-> 2, zero |-> 0],
    [S("valid", a, k) EXCEPT !.over = "payonly"], [S("valid", a, k) EXCEPT !.over = "other"],
    S("valid", a, OtherKey(k)), S("valid", Sibling(a), k) }
  \cup (IF a \in ESAlgs THEN { S("zeropad", a, k) @@ [w |-> w] : w \in {x \in {48, 66, 70} : 2 * x > EsSigLen(a)} } \cup { S("der", a, k) } ELSE {})
Pm == << StrM("sub", "x") >>
TokOf(a, sg) == Tok(a, <<>>, Pm, sg)
V(c) == [op |-> "Verify", c |-> 0, tok |-> SlotTok(0), cmp |-> c]
VerdictScripts ==
  UNION { { << OpsOp(pl), LoadOp(<<ka[1]>>), CNewOp, CSetKeyOp(IF ka[1].alg = NONE THEN ka[2] ELSE "none", 0), ForgeOp(0, TokOf(ka[2], sg)),
               OpsOp(p1), V("v"), OpsOp(p2), V("v") >> : sg \in Classes(ka[1], ka[2]) }
          : ka \in Common, pl \in Providers, p1 \in Providers, p2 \in Providers }
VerdictScriptsOK == { s \in VerdictScripts : s[6].name # s[8].name }
\* key attributes neither provider consumes (use, key_ops) and the private form of the key as verification key:
\* same verdict from both
MetaVariants == { <<<<"sign">>, NONE>>, <<<<"verify">>, NONE>>, <<<<"encrypt", "decrypt">>, "enc">>, <<<<>>, "enc">>, <<<<"sign", "verify">>, "sig">>, <<<<"deriveBits">>, "other">> }
MetaBase == { <<AsymKey("rsa2048a", 0, NONE, NONE), "RS256">>, <<AsymKey("rsa2048a", 0, NONE, NONE), "PS256">>, <<AsymKey("p256a", 0, NONE, NONE), "ES256">>,
              <<AsymKey("p384a", 0, NONE, NONE), "ES384">>, <<AsymKey("ed25519a", 0, NONE, NONE), "EdDSA">>, <<AsymKey("ed448a", 0, NONE, NONE), "EdDSA">>,
              <<OctKey(32, "a", NONE, NONE), "HS256">> }
MetaScripts ==
  UNION { { << OpsOp(pl), LoadOp(<<[ka[1] EXCEPT !.priv = pv, !.ops = mv[1], !.use = mv[2]]>>), CNewOp, CSetKeyOp(ka[2], 0),
               ForgeOp(0, TokOf(ka[2], S("valid", ka[2], ka[1]))), OpsOp(p1), V("v"), OpsOp(IF p1 = "openssl" THEN "gnutls" ELSE "openssl"), V("v") >>
             : mv \in MetaVariants, pv \in {0, 1} }
          : ka \in MetaBase, pl \in Providers, p1 \in Providers }
\* the provider is the process's: a selection made on one thread is what every other thread sees and uses
OpsThreadOp(n) == [op |-> "OpsThread", name |-> n]
ThreadScripts ==
  { <<OpsOp(a), OpsThreadOp(b), OpsThreadOp(NONE), OpsOp(c), OpsThreadOp(NONE)>> :
      a \in {"openssl", "gnutls"}, b \in {NONE, "openssl", "gnutls", "GnuTLS", "x"}, c \in {"openssl", "gnutls", "nope"} }
\* altered after signing
AlterScripts ==
  { << LoadOp(<<ka[1]>>), CNewOp, CSetKeyOp(ka[2], 0), ForgeOp(0, [TokOf(ka[2], S("valid", ka[2], ka[1])) EXCEPT !.alter = alt]),
       OpsOp("openssl"), V("v"), OpsOp("gnutls"), V("v") >> : ka \in {x \in Common : x[1].alg = NONE}, alt \in {"hdr", "pay"} }

\* history: what either provider did before on this thread - imported a JWKS with an unusable member (an
\* EC "point" off the curve), refused a forged RS256 token, refused a damaged ES512 token - changes nothing
KRsaH == AsymKey("rsa2048b", 0, NONE, NONE)
KEcH == AsymKey("p521b", 0, NONE, NONE)
BadH == WithDefect(AsymKey("p256b", 0, NONE, "bad"), "y", "offcurve")
C1(op) == [op EXCEPT !.c = 1]
C2(op) == [op EXCEPT !.c = 2]
HistoryScripts ==
  { << LoadOp(<<ka[1], KRsaH, KEcH>>), CNewOp, CSetKeyOp(IF ka[1].alg = NONE THEN ka[2] ELSE "none", 0), ForgeOp(0, TokOf(ka[2], S("valid", ka[2], ka[1]))),
       C1(CNewOp), C1(CSetKeyOp("RS256", 1)), C2(CNewOp), C2(CSetKeyOp("ES512", 2)),
       OpsOp(pd),
       [op |-> "Load", ring |-> 1, via |-> "create", doc |-> "keys", keys |-> <<BadH, KRsaH>>],
       C1(VerifyOp(TokOf("RS256", S("garbage", "RS256", KRsaH) @@ [len |-> 256]))),
       C2(VerifyOp(TokOf("ES512", S("flipbit", "ES512", KEcH) @@ [where |-> "last"]))),
       OpsOp("openssl"), V("v"), OpsOp("gnutls"), V("v"), OpsOp("openssl"), V("v") >> : ka \in Common, pd \in Providers }

\* B: deterministic algorithms
Det == { ka \in Common : ka[2] \in HSAlgs \cup RSAlgs \cup EdAlgs }
Priv(k) == [k EXCEPT !.priv = 1]
G(c, slot) == [op |-> "Generate", b |-> 0, slot |-> slot, cmp |-> c]
TokenScripts ==
  { << LoadOp(<<Priv(ka[1])>>), BNewOp, BSetKeyOp(ka[2], 0), CNewOp, CSetKeyOp(ka[2], 0),
       OpsOp(p1), G("t", 0), VerifyOp(SlotTok(0)), OpsOp(p2), G("t", 1), VerifyOp(SlotTok(0)), VerifyOp(SlotTok(1)), OpsOp(p1), VerifyOp(SlotTok(1)) >> :
      ka \in Det \cup { <<AsymKey("rsa9216a", 0, NONE, NONE), "RS256">>, <<AsymKey("rsa9216a", 0, NONE, NONE), "RS512">> }, p1 \in Providers, p2 \in Providers }
\* a private OKP JWK whose "x" member is the public half of ANOTHER key (a stale or copied x next to d): the key
\* is its d - both providers sign with it, produce the same token, and verify each other's with the true public key
XEd25519b == "lncoxKIi8P0R2As4v_fnOHXkHrxUnlWmIHXO0uvBEm0"
XEd448b == "R1qzJvKrDwYa5kZOJSFRIBBTsDkS5bdYG3TVEjmXNgv9JGqUmwOE5dyq8Wr5Mwct9JDSZTFju9mA"
StaleX(b, x) == AsymKey(b, 1, NONE, NONE) @@ [extra |-> <<<<"x", x>>>>]
StaleScripts ==
  { << OpsOp(pl), LoadOp(<<sk, AsymKey(sk.base, 0, NONE, NONE)>>), BNewOp, BSetKeyOp("EdDSA", 0), CNewOp, CSetKeyOp("EdDSA", 1),
       OpsOp(p1), G("t", 0), VerifyOp(SlotTok(0)), OpsOp(p2), G("t", 1), VerifyOp(SlotTok(0)), VerifyOp(SlotTok(1)),
       C1(CNewOp), C1(CSetKeyOp("EdDSA", 0)), C1(VerifyOp(SlotTok(0))), OpsOp(p1), C1(VerifyOp(SlotTok(1))) >> :
      sk \in {StaleX("ed25519a", XEd25519b), StaleX("ed448a", XEd448b)}, pl \in Providers, p1 \in Providers, p2 \in Providers }

\* randomised algorithms: only cross acceptance
RandScripts ==
  { << LoadOp(<<Priv(ka[1])>>), BNewOp, BSetKeyOp(ka[2], 0), CNewOp, CSetKeyOp(ka[2], 0),
       OpsOp(p1), GenerateOp(0), OpsOp(p2), VerifyOp(SlotTok(0)) >> : ka \in Common \ Det, p1 \in Providers, p2 \in Providers }

\* C: names and ids
Names == {"openssl", "gnutls", "OpenSSL", "GNUTLS", "gnutls ", " openssl", "gnutl", "opensslx", "", "mbedtls", "x", "none"}
OpsTOp(i) == [op |-> "OpsT", id |-> i]
NameOps == { OpsOp(n) : n \in Names } \cup { OpsTOp(i) : i \in 0..5 } \cup { OpsTOp(-1), OpsTOp(99) }
NameScripts == { <<a, b>> : a \in NameOps, b \in NameOps } \cup { <<a, b, c>> : a \in {OpsOp("gnutls"), OpsTOp(2)}, b \in NameOps, c \in {OpsOp("openssl"), OpsOp("zz")} }

\* (families, not their union: see ISpecFam in Interp.tla)
MCSpec == ISpecFam(<<VerdictScriptsOK, AlterScripts, TokenScripts, RandScripts, NameScripts, HistoryScripts, StaleScripts, MetaScripts, ThreadScripts>>)

\* on the specification: switching happens only on exact names / ids of compiled providers
SwitchOnlyExact ==
  [][ ops' # ops => (pc <= Len(script) /\ ((script[pc].op \in {"Ops", "OpsThread"} /\ script[pc].name = ops') \/ (script[pc].op = "OpsT" /\ ProviderId[ops'] = script[pc].id))) ]_ivars
=============================================================================
