SPECIFICATION MCSpec
CONSTANTS Mode = "seq" MaxLen = 3 Which = "clm"
INVARIANT Emit
PROPERTY RefusedSetNoChange ReadYourWrite DeleteExact GetPure MergeRule
CHECK_DEADLOCK FALSE
