---- MODULE MC_C15_TTrace_1790477451 ----
EXTENDS Sequences, TLCExt, Toolbox, Naturals, TLC, MC_C15

_expression ==
    LET MC_C15_TEExpression == INSTANCE MC_C15_TEExpression
    IN MC_C15_TEExpression!expression
----

_trace ==
    LET MC_C15_TETrace == INSTANCE MC_C15_TETrace
    IN MC_C15_TETrace!trace
----

_inv ==
    ~(
        TLCGet("level") = Len(_TETrace)
        /\
        builders = ((0 :> [clm |-> [n |-> <<"null", "null", <<524288, 0, 0>>>>, r |-> <<"real", "real", <<524288, 0, 0>>>>, a |-> <<"int", "", <<524288, 0, 5>>>>, b |-> <<"str", "x", <<524288, 0, 0>>>>, l |-> <<"arr", "[true]", <<524288, 0, 0>>>>, o |-> <<"obj", "{\"x\":1}", <<524288, 0, 0>>>>], hdr |-> <<>>, err |-> 0, live |-> TRUE, msg |-> 0, alg |-> "none", key |-> [id |-> -1, kd |-> [base |-> "~"]], hascb |-> FALSE, cb |-> <<>>, iat |-> TRUE, nbfOn |-> FALSE, nbfOff |-> <<524288, 0, 0>>, expOn |-> FALSE, expOff |-> <<524288, 0, 0>>] @@ 1 :> [live |-> FALSE] @@ 2 :> [live |-> FALSE] @@ 3 :> [live |-> FALSE]))
        /\
        nextId = (0)
        /\
        hist = (<<[k |-> "set", v |-> [t |-> "str", name |-> "a", val |-> "x", replace |-> 0, jcls |-> "~", jm |-> <<>>, jcanon |-> "~"], op |-> "BMap", b |-> 0, which |-> "clm"], [k |-> "set", v |-> [t |-> "str", name |-> "b", val |-> "x", replace |-> 0, jcls |-> "~", jm |-> <<>>, jcanon |-> "~"], op |-> "BMap", b |-> 0, which |-> "clm"], [k |-> "set", v |-> [t |-> "int", name |-> "a", val |-> <<524288, 0, 5>>, replace |-> 1, jcls |-> "~", jm |-> <<>>, jcanon |-> "~"], op |-> "BMap", b |-> 0, which |-> "clm"], [k |-> "set", v |-> [t |-> "json", name |-> "~", val |-> "{\"r\":1.5,\"n\":null,\"o\":{\"x\":1},\"l\":[true]}", replace |-> 0, jcls |-> "obj", jm |-> <<<<"l", "arr", "[true]", <<524288, 0, 0>>>>, <<"n", "null", "null", <<524288, 0, 0>>>>, <<"o", "obj", "{\"x\":1}", <<524288, 0, 0>>>>, <<"r", "real", "real", <<524288, 0, 0>>>>>>, jcanon |-> "{\"r\":1.5,\"n\":null,\"o\":{\"x\":1},\"l\":[true]}"], op |-> "BMap", b |-> 0, which |-> "clm"]>>)
        /\
        ops = ("openssl")
        /\
        rings = ((0 :> [err |-> FALSE, live |-> FALSE, items |-> <<>>] @@ 1 :> [err |-> FALSE, live |-> FALSE, items |-> <<>>] @@ 2 :> [err |-> FALSE, live |-> FALSE, items |-> <<>>] @@ 3 :> [err |-> FALSE, live |-> FALSE, items |-> <<>>]))
        /\
        toks = ((0 :> [clm |-> <<>>, hdr |-> <<>>, sigEmpty |-> TRUE, ret |-> "null", wf |-> FALSE, talg |-> "~", validby |-> {}] @@ 1 :> [clm |-> <<>>, hdr |-> <<>>, sigEmpty |-> TRUE, ret |-> "null", wf |-> FALSE, talg |-> "~", validby |-> {}] @@ 2 :> [clm |-> <<>>, hdr |-> <<>>, sigEmpty |-> TRUE, ret |-> "null", wf |-> FALSE, talg |-> "~", validby |-> {}] @@ 3 :> [clm |-> <<>>, hdr |-> <<>>, sigEmpty |-> TRUE, ret |-> "null", wf |-> FALSE, talg |-> "~", validby |-> {}] @@ 4 :> [clm |-> <<>>, hdr |-> <<>>, sigEmpty |-> TRUE, ret |-> "null", wf |-> FALSE, talg |-> "~", validby |-> {}] @@ 5 :> [clm |-> <<>>, hdr |-> <<>>, sigEmpty |-> TRUE, ret |-> "null", wf |-> FALSE, talg |-> "~", validby |-> {}] @@ 6 :> [clm |-> <<>>, hdr |-> <<>>, sigEmpty |-> TRUE, ret |-> "null", wf |-> FALSE, talg |-> "~", validby |-> {}] @@ 7 :> [clm |-> <<>>, hdr |-> <<>>, sigEmpty |-> TRUE, ret |-> "null", wf |-> FALSE, talg |-> "~", validby |-> {}]))
        /\
        checkers = ((0 :> [live |-> FALSE] @@ 1 :> [live |-> FALSE] @@ 2 :> [live |-> FALSE] @@ 3 :> [live |-> FALSE]))
        /\
        now = (<<524288, 405, 1306880>>)
    )
----

_init ==
    /\ toks = _TETrace[1].toks
    /\ checkers = _TETrace[1].checkers
    /\ rings = _TETrace[1].rings
    /\ builders = _TETrace[1].builders
    /\ now = _TETrace[1].now
    /\ nextId = _TETrace[1].nextId
    /\ ops = _TETrace[1].ops
    /\ hist = _TETrace[1].hist
----

_next ==
    /\ \E i,j \in DOMAIN _TETrace:
        /\ \/ /\ j = i + 1
              /\ i = TLCGet("level")
        /\ toks  = _TETrace[i].toks
        /\ toks' = _TETrace[j].toks
        /\ checkers  = _TETrace[i].checkers
        /\ checkers' = _TETrace[j].checkers
        /\ rings  = _TETrace[i].rings
        /\ rings' = _TETrace[j].rings
        /\ builders  = _TETrace[i].builders
        /\ builders' = _TETrace[j].builders
        /\ now  = _TETrace[i].now
        /\ now' = _TETrace[j].now
        /\ nextId  = _TETrace[i].nextId
        /\ nextId' = _TETrace[j].nextId
        /\ ops  = _TETrace[i].ops
        /\ ops' = _TETrace[j].ops
        /\ hist  = _TETrace[i].hist
        /\ hist' = _TETrace[j].hist

\* Uncomment the ASSUME below to write the states of the error trace
\* to the given file in Json format. Note that you can pass any tuple
\* to `JsonSerialize`. For example, a sub-sequence of _TETrace.
    \* ASSUME
    \*     LET J == INSTANCE Json
    \*         IN J!JsonSerialize("MC_C15_TTrace_1790477451.json", _TETrace)

=============================================================================

 Note that you can extract this module `MC_C15_TEExpression`
  to a dedicated file to reuse `expression` (the module in the 
  dedicated `MC_C15_TEExpression.tla` file takes precedence 
  over the module `MC_C15_TEExpression` below).

---- MODULE MC_C15_TEExpression ----
EXTENDS Sequences, TLCExt, Toolbox, Naturals, TLC, MC_C15

expression == 
    [
        \* To hide variables of the `MC_C15` spec from the error trace,
        \* remove the variables below.  The trace will be written in the order
        \* of the fields of this record.
        toks |-> toks
        ,checkers |-> checkers
        ,rings |-> rings
        ,builders |-> builders
        ,now |-> now
        ,nextId |-> nextId
        ,ops |-> ops
        ,hist |-> hist
        
        \* Put additional constant-, state-, and action-level expressions here:
        \* ,_stateNumber |-> _TEPosition
        \* ,_toksUnchanged |-> toks = toks'
        
        \* Format the `toks` variable as Json value.
        \* ,_toksJson |->
        \*     LET J == INSTANCE Json
        \*     IN J!ToJson(toks)
        
        \* Lastly, you may build expressions over arbitrary sets of states by
        \* leveraging the _TETrace operator.  For example, this is how to
        \* count the number of times a spec variable changed up to the current
        \* state in the trace.
        \* ,_toksModCount |->
        \*     LET F[s \in DOMAIN _TETrace] ==
        \*         IF s = 1 THEN 0
        \*         ELSE IF _TETrace[s].toks # _TETrace[s-1].toks
        \*             THEN 1 + F[s-1] ELSE F[s-1]
        \*     IN F[_TEPosition - 1]
    ]

=============================================================================



Parsing and semantic processing can take forever if the trace below is long.
 In this case, it is advised to uncomment the module below to deserialize the
 trace from a generated binary file.

\*
\*---- MODULE MC_C15_TETrace ----
\*EXTENDS IOUtils, TLC, MC_C15
\*
\*trace == IODeserialize("MC_C15_TTrace_1790477451.bin", TRUE)
\*
\*=============================================================================
\*

---- MODULE MC_C15_TETrace ----
EXTENDS TLC, MC_C15

trace == 
    <<
    ([builders |-> (0 :> [clm |-> <<>>, hdr |-> <<>>, err |-> 0, live |-> TRUE, msg |-> 0, alg |-> "none", key |-> [id |-> -1, kd |-> [base |-> "~"]], hascb |-> FALSE, cb |-> <<>>, iat |-> TRUE, nbfOn |-> FALSE, nbfOff |-> <<524288, 0, 0>>, expOn |-> FALSE, expOff |-> <<524288, 0, 0>>] @@ 1 :> [live |-> FALSE] @@ 2 :> [live |-> FALSE] @@ 3 :> [live |-> FALSE]),nextId |-> 0,hist |-> <<>>,ops |-> "openssl",rings |-> (0 :> [err |-> FALSE, live |-> FALSE, items |-> <<>>] @@ 1 :> [err |-> FALSE, live |-> FALSE, items |-> <<>>] @@ 2 :> [err |-> FALSE, live |-> FALSE, items |-> <<>>] @@ 3 :> [err |-> FALSE, live |-> FALSE, items |-> <<>>]),toks |-> (0 :> [clm |-> <<>>, hdr |-> <<>>, sigEmpty |-> TRUE, ret |-> "null", wf |-> FALSE, talg |-> "~", validby |-> {}] @@ 1 :> [clm |-> <<>>, hdr |-> <<>>, sigEmpty |-> TRUE, ret |-> "null", wf |-> FALSE, talg |-> "~", validby |-> {}] @@ 2 :> [clm |-> <<>>, hdr |-> <<>>, sigEmpty |-> TRUE, ret |-> "null", wf |-> FALSE, talg |-> "~", validby |-> {}] @@ 3 :> [clm |-> <<>>, hdr |-> <<>>, sigEmpty |-> TRUE, ret |-> "null", wf |-> FALSE, talg |-> "~", validby |-> {}] @@ 4 :> [clm |-> <<>>, hdr |-> <<>>, sigEmpty |-> TRUE, ret |-> "null", wf |-> FALSE, talg |-> "~", validby |-> {}] @@ 5 :> [clm |-> <<>>, hdr |-> <<>>, sigEmpty |-> TRUE, ret |-> "null", wf |-> FALSE, talg |-> "~", validby |-> {}] @@ 6 :> [clm |-> <<>>, hdr |-> <<>>, sigEmpty |-> TRUE, ret |-> "null", wf |-> FALSE, talg |-> "~", validby |-> {}] @@ 7 :> [clm |-> <<>>, hdr |-> <<>>, sigEmpty |-> TRUE, ret |-> "null", wf |-> FALSE, talg |-> "~", validby |-> {}]),checkers |-> (0 :> [live |-> FALSE] @@ 1 :> [live |-> FALSE] @@ 2 :> [live |-> FALSE] @@ 3 :> [live |-> FALSE]),now |-> <<524288, 405, 1306880>>]),
    ([builders |-> (0 :> [clm |-> [a |-> <<"str", "x", <<524288, 0, 0>>>>], hdr |-> <<>>, err |-> 0, live |-> TRUE, msg |-> 0, alg |-> "none", key |-> [id |-> -1, kd |-> [base |-> "~"]], hascb |-> FALSE, cb |-> <<>>, iat |-> TRUE, nbfOn |-> FALSE, nbfOff |-> <<524288, 0, 0>>, expOn |-> FALSE, expOff |-> <<524288, 0, 0>>] @@ 1 :> [live |-> FALSE] @@ 2 :> [live |-> FALSE] @@ 3 :> [live |-> FALSE]),nextId |-> 0,hist |-> <<[k |-> "set", v |-> [t |-> "str", name |-> "a", val |-> "x", replace |-> 0, jcls |-> "~", jm |-> <<>>, jcanon |-> "~"], op |-> "BMap", b |-> 0, which |-> "clm"]>>,ops |-> "openssl",rings |-> (0 :> [err |-> FALSE, live |-> FALSE, items |-> <<>>] @@ 1 :> [err |-> FALSE, live |-> FALSE, items |-> <<>>] @@ 2 :> [err |-> FALSE, live |-> FALSE, items |-> <<>>] @@ 3 :> [err |-> FALSE, live |-> FALSE, items |-> <<>>]),toks |-> (0 :> [clm |-> <<>>, hdr |-> <<>>, sigEmpty |-> TRUE, ret |-> "null", wf |-> FALSE, talg |-> "~", validby |-> {}] @@ 1 :> [clm |-> <<>>, hdr |-> <<>>, sigEmpty |-> TRUE, ret |-> "null", wf |-> FALSE, talg |-> "~", validby |-> {}] @@ 2 :> [clm |-> <<>>, hdr |-> <<>>, sigEmpty |-> TRUE, ret |-> "null", wf |-> FALSE, talg |-> "~", validby |-> {}] @@ 3 :> [clm |-> <<>>, hdr |-> <<>>, sigEmpty |-> TRUE, ret |-> "null", wf |-> FALSE, talg |-> "~", validby |-> {}] @@ 4 :> [clm |-> <<>>, hdr |-> <<>>, sigEmpty |-> TRUE, ret |-> "null", wf |-> FALSE, talg |-> "~", validby |-> {}] @@ 5 :> [clm |-> <<>>, hdr |-> <<>>, sigEmpty |-> TRUE, ret |-> "null", wf |-> FALSE, talg |-> "~", validby |-> {}] @@ 6 :> [clm |-> <<>>, hdr |-> <<>>, sigEmpty |-> TRUE, ret |-> "null", wf |-> FALSE, talg |-> "~", validby |-> {}] @@ 7 :> [clm |-> <<>>, hdr |-> <<>>, sigEmpty |-> TRUE, ret |-> "null", wf |-> FALSE, talg |-> "~", validby |-> {}]),checkers |-> (0 :> [live |-> FALSE] @@ 1 :> [live |-> FALSE] @@ 2 :> [live |-> FALSE] @@ 3 :> [live |-> FALSE]),now |-> <<524288, 405, 1306880>>]),
    ([builders |-> (0 :> [clm |-> [a |-> <<"str", "x", <<524288, 0, 0>>>>, b |-> <<"str", "x", <<524288, 0, 0>>>>], hdr |-> <<>>, err |-> 0, live |-> TRUE, msg |-> 0, alg |-> "none", key |-> [id |-> -1, kd |-> [base |-> "~"]], hascb |-> FALSE, cb |-> <<>>, iat |-> TRUE, nbfOn |-> FALSE, nbfOff |-> <<524288, 0, 0>>, expOn |-> FALSE, expOff |-> <<524288, 0, 0>>] @@ 1 :> [live |-> FALSE] @@ 2 :> [live |-> FALSE] @@ 3 :> [live |-> FALSE]),nextId |-> 0,hist |-> <<[k |-> "set", v |-> [t |-> "str", name |-> "a", val |-> "x", replace |-> 0, jcls |-> "~", jm |-> <<>>, jcanon |-> "~"], op |-> "BMap", b |-> 0, which |-> "clm"], [k |-> "set", v |-> [t |-> "str", name |-> "b", val |-> "x", replace |-> 0, jcls |-> "~", jm |-> <<>>, jcanon |-> "~"], op |-> "BMap", b |-> 0, which |-> "clm"]>>,ops |-> "openssl",rings |-> (0 :> [err |-> FALSE, live |-> FALSE, items |-> <<>>] @@ 1 :> [err |-> FALSE, live |-> FALSE, items |-> <<>>] @@ 2 :> [err |-> FALSE, live |-> FALSE, items |-> <<>>] @@ 3 :> [err |-> FALSE, live |-> FALSE, items |-> <<>>]),toks |-> (0 :> [clm |-> <<>>, hdr |-> <<>>, sigEmpty |-> TRUE, ret |-> "null", wf |-> FALSE, talg |-> "~", validby |-> {}] @@ 1 :> [clm |-> <<>>, hdr |-> <<>>, sigEmpty |-> TRUE, ret |-> "null", wf |-> FALSE, talg |-> "~", validby |-> {}] @@ 2 :> [clm |-> <<>>, hdr |-> <<>>, sigEmpty |-> TRUE, ret |-> "null", wf |-> FALSE, talg |-> "~", validby |-> {}] @@ 3 :> [clm |-> <<>>, hdr |-> <<>>, sigEmpty |-> TRUE, ret |-> "null", wf |-> FALSE, talg |-> "~", validby |-> {}] @@ 4 :> [clm |-> <<>>, hdr |-> <<>>, sigEmpty |-> TRUE, ret |-> "null", wf |-> FALSE, talg |-> "~", validby |-> {}] @@ 5 :> [clm |-> <<>>, hdr |-> <<>>, sigEmpty |-> TRUE, ret |-> "null", wf |-> FALSE, talg |-> "~", validby |-> {}] @@ 6 :> [clm |-> <<>>, hdr |-> <<>>, sigEmpty |-> TRUE, ret |-> "null", wf |-> FALSE, talg |-> "~", validby |-> {}] @@ 7 :> [clm |-> <<>>, hdr |-> <<>>, sigEmpty |-> TRUE, ret |-> "null", wf |-> FALSE, talg |-> "~", validby |-> {}]),checkers |-> (0 :> [live |-> FALSE] @@ 1 :> [live |-> FALSE] @@ 2 :> [live |-> FALSE] @@ 3 :> [live |-> FALSE]),now |-> <<524288, 405, 1306880>>]),
    ([builders |-> (0 :> [clm |-> [a |-> <<"int", "", <<524288, 0, 5>>>>, b |-> <<"str", "x", <<524288, 0, 0>>>>], hdr |-> <<>>, err |-> 0, live |-> TRUE, msg |-> 0, alg |-> "none", key |-> [id |-> -1, kd |-> [base |-> "~"]], hascb |-> FALSE, cb |-> <<>>, iat |-> TRUE, nbfOn |-> FALSE, nbfOff |-> <<524288, 0, 0>>, expOn |-> FALSE, expOff |-> <<524288, 0, 0>>] @@ 1 :> [live |-> FALSE] @@ 2 :> [live |-> FALSE] @@ 3 :> [live |-> FALSE]),nextId |-> 0,hist |-> <<[k |-> "set", v |-> [t |-> "str", name |-> "a", val |-> "x", replace |-> 0, jcls |-> "~", jm |-> <<>>, jcanon |-> "~"], op |-> "BMap", b |-> 0, which |-> "clm"], [k |-> "set", v |-> [t |-> "str", name |-> "b", val |-> "x", replace |-> 0, jcls |-> "~", jm |-> <<>>, jcanon |-> "~"], op |-> "BMap", b |-> 0, which |-> "clm"], [k |-> "set", v |-> [t |-> "int", name |-> "a", val |-> <<524288, 0, 5>>, replace |-> 1, jcls |-> "~", jm |-> <<>>, jcanon |-> "~"], op |-> "BMap", b |-> 0, which |-> "clm"]>>,ops |-> "openssl",rings |-> (0 :> [err |-> FALSE, live |-> FALSE, items |-> <<>>] @@ 1 :> [err |-> FALSE, live |-> FALSE, items |-> <<>>] @@ 2 :> [err |-> FALSE, live |-> FALSE, items |-> <<>>] @@ 3 :> [err |-> FALSE, live |-> FALSE, items |-> <<>>]),toks |-> (0 :> [clm |-> <<>>, hdr |-> <<>>, sigEmpty |-> TRUE, ret |-> "null", wf |-> FALSE, talg |-> "~", validby |-> {}] @@ 1 :> [clm |-> <<>>, hdr |-> <<>>, sigEmpty |-> TRUE, ret |-> "null", wf |-> FALSE, talg |-> "~", validby |-> {}] @@ 2 :> [clm |-> <<>>, hdr |-> <<>>, sigEmpty |-> TRUE, ret |-> "null", wf |-> FALSE, talg |-> "~", validby |-> {}] @@ 3 :> [clm |-> <<>>, hdr |-> <<>>, sigEmpty |-> TRUE, ret |-> "null", wf |-> FALSE, talg |-> "~", validby |-> {}] @@ 4 :> [clm |-> <<>>, hdr |-> <<>>, sigEmpty |-> TRUE, ret |-> "null", wf |-> FALSE, talg |-> "~", validby |-> {}] @@ 5 :> [clm |-> <<>>, hdr |-> <<>>, sigEmpty |-> TRUE, ret |-> "null", wf |-> FALSE, talg |-> "~", validby |-> {}] @@ 6 :> [clm |-> <<>>, hdr |-> <<>>, sigEmpty |-> TRUE, ret |-> "null", wf |-> FALSE, talg |-> "~", validby |-> {}] @@ 7 :> [clm |-> <<>>, hdr |-> <<>>, sigEmpty |-> TRUE, ret |-> "null", wf |-> FALSE, talg |-> "~", validby |-> {}]),checkers |-> (0 :> [live |-> FALSE] @@ 1 :> [live |-> FALSE] @@ 2 :> [live |-> FALSE] @@ 3 :> [live |-> FALSE]),now |-> <<524288, 405, 1306880>>]),
    ([builders |-> (0 :> [clm |-> [n |-> <<"null", "null", <<524288, 0, 0>>>>, r |-> <<"real", "real", <<524288, 0, 0>>>>, a |-> <<"int", "", <<524288, 0, 5>>>>, b |-> <<"str", "x", <<524288, 0, 0>>>>, l |-> <<"arr", "[true]", <<524288, 0, 0>>>>, o |-> <<"obj", "{\"x\":1}", <<524288, 0, 0>>>>], hdr |-> <<>>, err |-> 0, live |-> TRUE, msg |-> 0, alg |-> "none", key |-> [id |-> -1, kd |-> [base |-> "~"]], hascb |-> FALSE, cb |-> <<>>, iat |-> TRUE, nbfOn |-> FALSE, nbfOff |-> <<524288, 0, 0>>, expOn |-> FALSE, expOff |-> <<524288, 0, 0>>] @@ 1 :> [live |-> FALSE] @@ 2 :> [live |-> FALSE] @@ 3 :> [live |-> FALSE]),nextId |-> 0,hist |-> <<[k |-> "set", v |-> [t |-> "str", name |-> "a", val |-> "x", replace |-> 0, jcls |-> "~", jm |-> <<>>, jcanon |-> "~"], op |-> "BMap", b |-> 0, which |-> "clm"], [k |-> "set", v |-> [t |-> "str", name |-> "b", val |-> "x", replace |-> 0, jcls |-> "~", jm |-> <<>>, jcanon |-> "~"], op |-> "BMap", b |-> 0, which |-> "clm"], [k |-> "set", v |-> [t |-> "int", name |-> "a", val |-> <<524288, 0, 5>>, replace |-> 1, jcls |-> "~", jm |-> <<>>, jcanon |-> "~"], op |-> "BMap", b |-> 0, which |-> "clm"], [k |-> "set", v |-> [t |-> "json", name |-> "~", val |-> "{\"r\":1.5,\"n\":null,\"o\":{\"x\":1},\"l\":[true]}", replace |-> 0, jcls |-> "obj", jm |-> <<<<"l", "arr", "[true]", <<524288, 0, 0>>>>, <<"n", "null", "null", <<524288, 0, 0>>>>, <<"o", "obj", "{\"x\":1}", <<524288, 0, 0>>>>, <<"r", "real", "real", <<524288, 0, 0>>>>>>, jcanon |-> "{\"r\":1.5,\"n\":null,\"o\":{\"x\":1},\"l\":[true]}"], op |-> "BMap", b |-> 0, which |-> "clm"]>>,ops |-> "openssl",rings |-> (0 :> [err |-> FALSE, live |-> FALSE, items |-> <<>>] @@ 1 :> [err |-> FALSE, live |-> FALSE, items |-> <<>>] @@ 2 :> [err |-> FALSE, live |-> FALSE, items |-> <<>>] @@ 3 :> [err |-> FALSE, live |-> FALSE, items |-> <<>>]),toks |-> (0 :> [clm |-> <<>>, hdr |-> <<>>, sigEmpty |-> TRUE, ret |-> "null", wf |-> FALSE, talg |-> "~", validby |-> {}] @@ 1 :> [clm |-> <<>>, hdr |-> <<>>, sigEmpty |-> TRUE, ret |-> "null", wf |-> FALSE, talg |-> "~", validby |-> {}] @@ 2 :> [clm |-> <<>>, hdr |-> <<>>, sigEmpty |-> TRUE, ret |-> "null", wf |-> FALSE, talg |-> "~", validby |-> {}] @@ 3 :> [clm |-> <<>>, hdr |-> <<>>, sigEmpty |-> TRUE, ret |-> "null", wf |-> FALSE, talg |-> "~", validby |-> {}] @@ 4 :> [clm |-> <<>>, hdr |-> <<>>, sigEmpty |-> TRUE, ret |-> "null", wf |-> FALSE, talg |-> "~", validby |-> {}] @@ 5 :> [clm |-> <<>>, hdr |-> <<>>, sigEmpty |-> TRUE, ret |-> "null", wf |-> FALSE, talg |-> "~", validby |-> {}] @@ 6 :> [clm |-> <<>>, hdr |-> <<>>, sigEmpty |-> TRUE, ret |-> "null", wf |-> FALSE, talg |-> "~", validby |-> {}] @@ 7 :> [clm |-> <<>>, hdr |-> <<>>, sigEmpty |-> TRUE, ret |-> "null", wf |-> FALSE, talg |-> "~", validby |-> {}]),checkers |-> (0 :> [live |-> FALSE] @@ 1 :> [live |-> FALSE] @@ 2 :> [live |-> FALSE] @@ 3 :> [live |-> FALSE]),now |-> <<524288, 405, 1306880>>])
    >>
----


=============================================================================

---- CONFIG MC_C15_TTrace_1790477451 ----
CONSTANTS
    Mode = "graph"
    MaxLen = 6
    Which = "clm"

INVARIANT
    _inv

CHECK_DEADLOCK
    \* CHECK_DEADLOCK off because of PROPERTY or INVARIANT above.
    FALSE

INIT
    _init

NEXT
    _next

CONSTANT
    _TETrace <- _trace

ALIAS
    _expression
=============================================================================
\* Generated on Sun Sep 27 02:50:54 UTC 2026