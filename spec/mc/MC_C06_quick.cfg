SPECIFICATION MCSpec
CONSTANTS Tier = "quick"
INVARIANT RefVerifyOK RefSetKeyOK Emit
CHECK_DEADLOCK FALSE
