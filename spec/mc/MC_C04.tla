------------------------------ MODULE MC_C04 ------------------------------
(* C04: claim checks are enforced exactly as configured.                   *)
(*  Lattice: clock x leeway x (exp | nbf) at the boundary and its          *)
(*  neighbours, far values, 64-bit extremes, every JSON type; expected vs   *)
(*  actual strings.  Sequences: all orders of configuration calls up to    *)
(*  MaxLen followed by verifies.  Signed (HS256) and unsigned tokens.       *)
EXTENDS Interp
CONSTANTS Tier, MaxLen
Quick == Tier = "quick"

KOct == OctKey(32, "a", NONE, NONE)
\* clocks: the epoch, now, far future - and the values a time API uses for something else ((time_t)-1 is also one
\* second before the epoch; 1 and -2 are its neighbours)
Nows == {W0, T0, W2p40, WOf(-1), WOf(-2), WOf(1)}
Lees == {WOf(-1), W0, WOf(1), WOf(300), W2p31, W2p40}
Deltas == {-2, -1, 0, 1, 2}
Far == {WMin, WMax, WOf(-1), W0, W2p62, WOf(-2147483647)}

\* token with the given claims, signed or not
TokC(signed, m) == IF signed THEN Tok("HS256", <<>>, m, Sig("valid", "HS256", KOct)) ELSE Tok("none", <<>>, m, EmptySig)
Setup(signed) == IF signed THEN <<LoadOp(<<KOct>>), CNewOp, CSetKeyOp("HS256", 0)>> ELSE <<CNewOp>>

\* boundary value for exp: now - lee + d ; for nbf: now + lee + d
ExpAt(t, lee, d) == WAdd(WSub(t, lee), WOf(d))
NbfAt(t, lee, d) == WAdd(WAdd(t, lee), WOf(d))
InR(w) == w[1] >= 0 /\ w[1] < L20

LatticeScripts ==
  { Setup(s) \o <<ClockOp(t), CLeewayOp("exp", lee), VerifyOp(TokC(s, <<IntM("exp", ExpAt(t, lee, d))>>))>> :
      s \in {TRUE, FALSE}, t \in Nows, lee \in Lees, d \in Deltas }
  \cup { Setup(s) \o <<ClockOp(t), CLeewayOp("nbf", lee), VerifyOp(TokC(s, <<IntM("nbf", NbfAt(t, lee, d))>>))>> :
      s \in {TRUE, FALSE}, t \in Nows, lee \in Lees, d \in Deltas }
  \cup { Setup(s) \o <<ClockOp(t), CLeewayOp(c, lee), VerifyOp(TokC(s, <<IntM(c, v)>>))>> :
      s \in {TRUE, FALSE}, t \in Nows, lee \in {WOf(-1), W0, WOf(300)}, c \in {"exp", "nbf"}, v \in Far }
  \* defaults: both checks on with zero leeway, no configuration call at all
  \cup { Setup(s) \o <<ClockOp(t), VerifyOp(TokC(s, <<IntM(c, WAdd(t, WOf(d)))>>))>> :
      s \in {TRUE, FALSE}, t \in {T0, W2p40}, c \in {"exp", "nbf"}, d \in Deltas }
  \* both claims at once
  \cup { Setup(s) \o <<CLeewayOp("exp", le), CLeewayOp("nbf", ln), VerifyOp(TokC(s, <<IntM("exp", ExpAt(T0, le, de)), IntM("nbf", NbfAt(T0, ln, dn))>>))>> :
      s \in {TRUE, FALSE}, le \in {WOf(-1), W0, WOf(300)}, ln \in {WOf(-1), W0, WOf(300)}, de \in {0, 1}, dn \in {0, 1} }

\* every JSON type in place of exp / nbf
TypeMems(c) == { <<c, "str", "soon", W0>>, <<c, "bool", "true", W0>>, <<c, "null", "null", W0>>, <<c, "real", "real", W0>>,
                 <<c, "obj", "{\"v\":1}", W0>>, <<c, "arr", "[1]", W0>>, <<c, "intstr", "", WAdd(T0, WOf(1000))>>,
                 <<c, "realint", "", WAdd(T0, WOf(1000))>> }
TypeScripts ==
  { Setup(s) \o <<CLeewayOp(c, lee), VerifyOp(TokC(s, <<m>>))>> :
      s \in {TRUE, FALSE}, c \in {"exp", "nbf"}, lee \in {WOf(-1), W0}, m \in TypeMems("exp") \cup TypeMems("nbf") }

\* expected / actual strings for iss, sub, aud
StrPairs == { <<"me", <<"str", "me", W0>>>>, <<"me", <<"str", "m", W0>>>>, <<"me", <<"str", "mee", W0>>>>, <<"me", <<"str", "Me", W0>>>>,
              <<"me", <<"str", "", W0>>>>, <<"", <<"str", "", W0>>>>, <<"", <<"str", "me", W0>>>>, <<"me", <<"str", " me", W0>>>>,
              <<"me", <<"int", "", WOf(1)>>>>, <<"me", <<"bool", "true", W0>>>>, <<"me", <<"arr", "[\"me\"]", W0>>>>, <<"me", <<"null", "null", W0>>>>,
              <<"#hex:6dc3a9", <<"strx", "6dc3a9", W0>>>>, <<"#hex:6dc3a9", <<"str", "me", W0>>>>, <<"me", <<"strx", "6dc3a9", W0>>>>,
              <<"ab", <<"strx", "6162006364", W0>>>>, <<"me", <<"absent", "", W0>>>>,
              \* long values ("#long:n:tail" = n times 'a' then tail): equal, differing only in the last character, one a prefix of
              \* the other - at lengths around 255/256/257 and 4096 (no comparison may stop early)
              <<"#long:255:x", <<"str", "#long:255:x", W0>>>>, <<"#long:255:x", <<"str", "#long:255:y", W0>>>>,
              <<"#long:256:x", <<"str", "#long:256:y", W0>>>>, <<"#long:257:x", <<"str", "#long:257:y", W0>>>>,
              <<"#long:256:", <<"str", "#long:256:tail", W0>>>>, <<"#long:300:tail", <<"str", "#long:300:", W0>>>>,
              <<"#long:4096:x", <<"str", "#long:4096:x", W0>>>>, <<"#long:4096:x", <<"str", "#long:4096:y", W0>>>>,
              <<"#long:65536:x", <<"str", "#long:65536:y", W0>>>> }
StrScripts ==
  { Setup(s) \o <<CClaimSetOp(c, p[1]),
                  VerifyOp(TokC(s, IF p[2][1] = "absent" THEN <<>> ELSE <<<<c, p[2][1], p[2][2], p[2][3]>>>>))>> :
      s \in {TRUE, FALSE}, c \in {"iss", "sub", "aud"}, p \in StrPairs }
  \cup { Setup(s) \o <<CClaimSetOp("iss", "me"), CClaimSetOp("sub", "s"), CClaimSetOp("aud", "a"),
                       VerifyOp(TokC(s, <<StrM("iss", i), StrM("sub", u), StrM("aud", a)>>))>> :
      s \in {TRUE, FALSE}, i \in {"me", "x"}, u \in {"s", "x"}, a \in {"a", "x"} }

\* ---- sequences of configuration calls
Alphabet == { CLeewayOp("exp", WOf(-1)), CLeewayOp("exp", W0), CLeewayOp("exp", WOf(10)),
              CLeewayOp("nbf", WOf(-1)), CLeewayOp("nbf", WOf(10)),
              CClaimSetOp("iss", "me"), CClaimSetOp("iss", "you"), CClaimDelOp("iss"),
              CClaimSetOp("aud", "x"), CClaimDelOp("aud"), CLeewayOp("iat", W0), CClaimSetOp("exp", "1"),
              CClaimDelOp("exp"), CClaimDelOp("nbf") }          \* refused calls change nothing
Probes(s) == << VerifyOp(TokC(s, <<IntM("exp", WSub(T0, WOf(5)))>>)), VerifyOp(TokC(s, <<IntM("nbf", WAdd(T0, WOf(5)))>>)),
                VerifyOp(TokC(s, <<StrM("iss", "me"), IntM("exp", WAdd(T0, WOf(50)))>>)), VerifyOp(TokC(s, <<StrM("aud", "x")>>)),
                VerifyOp(TokC(s, <<>>)) >>
RECURSIVE Seqs(_)
Seqs(n) == IF n = 0 THEN {<<>>} ELSE {<<>>} \cup { <<a>> \o t : a \in Alphabet, t \in Seqs(n - 1) }
SeqScripts == { Setup(s) \o q \o Probes(s) : s \in {TRUE, FALSE}, q \in Seqs(MaxLen) }

\* ---- a callback that edits the token object it is handed: the checks are made on what the token CARRIES -
\* a claim the callback adds, corrects or removes does not satisfy or escape an expectation
Val(t, n, v, r) == [t |-> t, name |-> n, val |-> v, replace |-> r, jcls |-> NONE, jm |-> <<>>, jcanon |-> NONE]
StepSet(w, v) == [k |-> "set", which |-> w, v |-> v, map |-> 0]
StepDel(w, n) == [k |-> "del", which |-> w, v |-> Val("int", n, W0, 0), map |-> 0]
CbEdit(c) == { <<StepSet("clm", Val("str", c, "me", 1))>>, <<StepSet("clm", Val("str", c, "me", 0))>>, <<StepDel("clm", c)>>, <<StepDel("clm", NONE)>> }
CbTimeEdit == { <<StepSet("clm", Val("int", "exp", WAdd(T0, WOf(500)), 1))>>, <<StepSet("clm", Val("int", "nbf", WSub(T0, WOf(500)), 1))>>,
                <<StepDel("clm", "exp")>>, <<StepDel("clm", "nbf")>>, <<StepDel("clm", NONE)>>,
                <<StepSet("clm", Val("int", "exp", WSub(T0, WOf(500)), 1))>>, <<StepSet("clm", Val("int", "nbf", WAdd(T0, WOf(500)), 0))>> }
CbScripts ==
  UNION { { Setup(s) \o <<CClaimSetOp(c, "me"), CSetCbOp(p), VerifyOp(TokC(s, m))>> : s \in {TRUE, FALSE}, p \in CbEdit(c), m \in { <<>>, <<StrM(c, "you")>>, <<StrM(c, "me")>> } }
          : c \in {"iss", "sub", "aud"} }
  \cup { Setup(s) \o <<CSetCbOp(p), VerifyOp(TokC(s, m))>> : s \in {TRUE, FALSE}, p \in CbTimeEdit,
           m \in { <<>>, <<IntM("exp", WSub(T0, WOf(5)))>>, <<IntM("exp", WAdd(T0, WOf(5)))>>, <<IntM("nbf", WAdd(T0, WOf(5)))>>, <<IntM("nbf", WSub(T0, WOf(5)))>> } }

\* boundary values that would leave the 64-bit range are dropped (per family: see ISpecFam in Interp.tla)
OK(S) == { x \in S : \A i \in DOMAIN x : x[i].op = "Verify" => \A j \in DOMAIN x[i].tok.pay.m : InR(x[i].tok.pay.m[j][4]) }
\* stage 'faults': every allocation request made inside jwt_checker_verify fails once on checkers with expectations
\* (with and without a callback that edits the claims) handed tokens that fail them
FaultScripts ==
  { Setup(s) \o <<CClaimSetOp("iss", "me")>> \o cb \o
    << VerifyOp(TokC(s, <<StrM("iss", "you")>>)), VerifyOp(TokC(s, <<>>)), VerifyOp(TokC(s, <<StrM("iss", "me"), IntM("exp", WSub(T0, WOf(5)))>>)),
       VerifyOp(TokC(s, <<StrM("iss", "me"), IntM("nbf", WAdd(T0, WOf(5)))>>)), VerifyOp(TokC(s, <<StrM("iss", "me"), <<"exp", "str", "soon", W0>> >>)) >> :
      s \in {TRUE, FALSE},
      cb \in { <<>>, <<CSetCbOp(<<>>)>>, <<CSetCbOp(<<StepSet("clm", Val("str", "iss", "me", 1)), StepDel("clm", "exp"), StepDel("clm", "nbf")>>)>> } }
MCSpecFault == ISpecFam(<<FaultScripts>>)
MCSpec == ISpecFam(<<OK(LatticeScripts), OK(TypeScripts), OK(StrScripts), OK(SeqScripts), CbScripts>>)
=============================================================================
