SPECIFICATION MCSpec
CONSTANTS Tier = "thorough"
INVARIANT Emit
PROPERTY LoadAppends
CHECK_DEADLOCK FALSE
