------------------------------ MODULE MC_C08 ------------------------------
(* C08: JWK import preserves the key and its metadata.  Key type x size x  *)
(* private/public x optional members x integer encoding (fixed width,      *)
(* minimal, zero-padded by 1..3 bytes) x unrelated extra members.  The      *)
(* driver exports real keys with its own exporter, loads them, parses the   *)
(* item's PEM with OpenSSL and compares every component with the key it     *)
(* exported (projection "mat"); P_C08item judges the projected record.      *)
EXTENDS Interp
CONSTANT Tier
Quick == Tier = "quick"

Bases == DOMAIN AsymBase
OctLens == IF Quick THEN {1, 16, 32, 33, 64, 100, 255, 256, 512} ELSE 1..512
MatchAlg(b) == CASE AsymBase[b].kty = "RSA" -> "RS256" [] AsymBase[b].crv = "P-256" -> "ES256" [] AsymBase[b].crv = "P-384" -> "ES384"
                 [] AsymBase[b].crv = "P-521" -> "ES512" [] AsymBase[b].crv = "secp256k1" -> "ES256K" [] OTHER -> "EdDSA"
X(k, f) == k @@ f          \* k's own fields win; f only adds "pad" / "minimal" / "extra"
Enc == { [pad |-> 0, minimal |-> 0], [pad |-> 1, minimal |-> 0], [pad |-> 3, minimal |-> 0], [pad |-> 0, minimal |-> 1] }
ExtraFor(kty) ==
  CASE kty = "RSA" -> { <<>>, <<<<"k", "AAAA">>, <<"crv", "P-256">>, <<"x", "AAAA">>>>, <<<<"x5t", "abc">>, <<"zz", "1">>>> }
    [] kty = "EC" -> { <<>>, <<<<"n", "AQAB">>, <<"e", "AQAB">>, <<"k", "AAAA">>>>, <<<<"x5t", "abc">>, <<"p", "AQAB">>>> }
    [] kty = "OKP" -> { <<>>, <<<<"y", "AAAA">>, <<"n", "AQAB">>, <<"k", "AAAA">>>>, <<<<"zz", "1">>>> }
    [] kty = "oct" -> { <<>>, <<<<"n", "AQAB">>, <<"e", "AQAB">>, <<"d", "AQAB">>, <<"crv", "P-256">>, <<"x", "AAAA">>>>, <<<<"zz", "1">>>> }
\* unknown members of every JSON type ("#json:<text>" stands for that JSON value): WebCrypto's "ext": true, a numeric "nbf", ...
TypedExtras == <<<<"ext", "#json:true">>, <<"nbf", "#json:1493763266">>, <<"nul", "#json:null">>, <<"obj", "#json:{\"a\":[1]}">>, <<"f", "#json:false">>, <<"r", "#json:1.5">>>>
Meta == { [alg |-> a, kid |-> i, use |-> u, ops |-> o] :
            a \in {"@match", NONE}, i \in {NONE, "key-1"}, u \in {NONE, "sig"}, o \in {<<>>, <<"sign", "verify">>} }
        \cup { [alg |-> a, kid |-> "k", use |-> u, ops |-> o] :
            a \in {"none", "bogus", "HS256", "PS256", "EdDSA"}, u \in {"enc", "other"},
            o \in {<<"sign", "bogus">>, <<"sign", "verify", "encrypt", "decrypt", "wrapKey", "unwrapKey", "deriveKey", "deriveBits">>, <<"verify">>} }
WithMeta(k, m, match) == [k EXCEPT !.alg = IF m.alg = "@match" THEN match ELSE m.alg, !.kid = m.kid, !.use = m.use, !.ops = m.ops]

PlainMeta == [alg |-> NONE, kid |-> NONE, use |-> NONE, ops |-> <<>>]
E0 == [pad |-> 0, minimal |-> 0]
QuickBase(b) == ~Quick \/ AsymBase[b].kty # "RSA" \/ AsymBase[b].bits \in {512, 2048, 3072}
\* metadata varied with the default encoding; encodings and extras varied with plain metadata
AsymMeta == UNION { { X(WithMeta(AsymKey(b, p, NONE, NONE), m, MatchAlg(b)), E0 @@ [extra |-> <<>>]) : p \in {0, 1}, m \in Meta }
                    : b \in { x \in Bases : QuickBase(x) } }
AsymEnc == UNION { { X(AsymKey(b, p, NONE, NONE), e @@ [extra |-> x]) : p \in {0, 1}, e \in Enc, x \in ExtraFor(AsymBase[b].kty) } : b \in Bases }
           \cup { X(AsymKey(b, p, NONE, "kx"), E0 @@ [extra |-> TypedExtras]) : b \in {"rsa2048a", "p256a", "p384a", "ed25519a", "ed448a", "k256a"}, p \in {0, 1} }
OctMeta == { X(WithMeta(OctKey(n, "a", NONE, NONE), m, "HS256"), E0 @@ [extra |-> <<>>]) : n \in {32, 64}, m \in Meta }
OctEnc == { X(OctKey(n, v, NONE, NONE), E0 @@ [extra |-> x]) : n \in OctLens, v \in {"a", "b"}, x \in ExtraFor("oct") }
          \cup { X(OctKey(48, "a", "HS384", "kx"), E0 @@ [extra |-> TypedExtras]) }
          \* k written with '=' padding: the octets are the decoding of k, padding is not key material
          \cup { X(OctKey(n, "a", NONE, NONE) @@ [kpad |-> 1], E0 @@ [extra |-> <<>>]) : n \in {1, 2, 31, 32, 34, 47, 64, 65} }
          \cup { X(OctKey(n, v, NONE, NONE), E0 @@ [extra |-> <<>>]) : n \in {32, 33, 64},
                  v \in {"a.end0a", "a.end00", "a.end20", "a.beg00", "a.begff", "a.end3d"} }
\* key_ops: every operation alone, every pair, every set of seven, a repeated name, the reverse order
AllOps == <<"sign", "verify", "encrypt", "decrypt", "wrapKey", "unwrapKey", "deriveKey", "deriveBits">>
OpsLists == { <<AllOps[i]>> : i \in 1..8 } \cup { <<AllOps[i], AllOps[j]>> : i \in 1..8, j \in 1..8 }
            \cup { [j \in 1..7 |-> AllOps[IF j < i THEN j ELSE j + 1]] : i \in 1..8 }
            \cup { [j \in 1..8 |-> AllOps[9 - j]] }
OpsKds == { X(WithMeta(k, [alg |-> NONE, kid |-> "ops", use |-> NONE, ops |-> o], NONE), E0 @@ [extra |-> <<>>]) :
              k \in { OctKey(32, "a", NONE, NONE), AsymKey("p256a", 0, NONE, NONE), AsymKey("ed25519a", 1, NONE, NONE) }, o \in OpsLists }
Plain(k) == k.kid = NONE /\ k.use = NONE /\ k.ops = <<>> /\ k.alg = NONE
\* keys outside the usual: a public exponent wider than a machine word, a modulus of 9216 bits, a short private exponent
ExtraKds == { X(AsymKey(b, p, NONE, NONE), e @@ [extra |-> <<>>]) : b \in {"rsa2048e", "rsa9216a", "rsa2048z"}, p \in {0, 1}, e \in Enc }
Kds == AsymMeta \cup AsymEnc \cup OctMeta \cup OctEnc \cup OpsKds \cup ExtraKds

L(via, doc, kds) == [op |-> "Load", ring |-> 0, via |-> via, doc |-> doc, keys |-> kds]
\* history: a defective key imported earlier - in the same set, or by an earlier call - must not change
\* how a well-formed key is imported
BadEc == { WithDefect(AsymKey("p256a", 0, NONE, "bad"), "y", "foreign"), WithDefect(AsymKey("p384a", 1, NONE, "bad"), "crv", "unknownstr"),
           WithDefect(AsymKey("p256a", 0, NONE, "bad"), "x", "short"), WithDefect(AsymKey("rsa2048a", 1, NONE, "bad"), "d", "absent"),
           WithDefect(AsymKey("ed25519a", 0, NONE, "bad"), "x", "short") }
HistKds == { X(AsymKey(b, p, NONE, "good"), E0 @@ [extra |-> <<>>]) : b \in {"rsa2048a", "p256a", "p384a", "p521a", "k256a", "ed25519a", "ed448a"}, p \in {0, 1} }
           \cup { X(OctKey(32, "a", NONE, "good"), E0 @@ [extra |-> <<>>]) }
HistoryScripts ==
  { <<L("create", "keys", <<bad, k>>)>> : bad \in BadEc, k \in HistKds }
  \cup { <<L("create", "single", <<bad>>), L("load", "single", <<k>>), L("load", "keys", <<bad, k, k>>)>> : bad \in BadEc, k \in HistKds }
MCSpec == ISpecFam(<<HistoryScripts, { <<L("create", "single", <<k>>)>> : k \in Kds },
                     { <<L("create_strn", "keys", <<k>>)>> : k \in { x \in Kds : Plain(x) } }>>)
=============================================================================
