------------------------------ MODULE MC_C09 ------------------------------
(* C09: key-strength floor for signing and verification.                   *)
(* oct length x HS alg, RSA modulus size x RS/PS alg, EC curve x ES alg,   *)
(* OKP curve x EdDSA; generate and verify; both providers.                 *)
EXTENDS Interp
CONSTANT Tier
Quick == Tier = "quick"

OctLens == IF Quick THEN {0, 1, 16, 31, 32, 33, 47, 48, 49, 63, 64, 65, 100, 160} ELSE 0..160
RsaBases == {"rsa512a", "rsa1024a", "rsa2040a", "rsa2047a", "rsa2048a", "rsa2052a", "rsa2056a", "rsa3072a", "rsa4096a"}
RsaAlgs == IF Quick THEN {"RS256", "PS256", "RS512"} ELSE RSAlgs \cup PSAlgs
EcBases == {"p256a", "p384a", "p521a", "k256a", "bp256a", "bp384a", "bp512a", "p224a"}
OkpBases == {"ed25519a", "ed448a"}

Oct(n) == IF n = 0 THEN [OctKey(0, "a", NONE, NONE) EXCEPT !.bad = 1] ELSE OctKey(n, "a", NONE, NONE)
\* the same lengths with the algorithm named by the JWK itself (alg attribute), around each floor
OctAttr == { <<OctKey(n, "a", a, NONE), a>> : n \in {1, 16, 31, 32, 47, 48, 63, 64, 100}, a \in HSAlgs }
\* k written WITH '=' padding (the decoder tolerates it): the key is as long as its octets, not as its text
OctPadded == { <<OctKey(n, "a", NONE, NONE) @@ [kpad |-> 1], a>> : n \in {31, 32, 46, 47, 48, 49, 62, 63, 64, 65}, a \in HSAlgs }
Pairs == { <<Oct(n), a>> : n \in OctLens, a \in HSAlgs } \cup OctAttr \cup OctPadded
    \cup { <<AsymKey(b, 1, NONE, NONE), a>> : b \in RsaBases, a \in RsaAlgs }
    \cup { <<AsymKey(b, 1, NONE, NONE), a>> : b \in EcBases, a \in ESAlgs }
    \cup { <<AsymKey(b, 1, NONE, NONE), "EdDSA">> : b \in OkpBases }

\* keys whose import FAILED (no size, no key object) handed to the operation: never a success
BadPairs == { <<WithDefect(AsymKey("rsa2048a", 1, NONE, NONE), "e", "absent"), "RS256">>, <<WithDefect(AsymKey("rsa1024a", 1, NONE, NONE), "n", "notb64"), "PS256">>,
              <<WithDefect(AsymKey("p384a", 1, NONE, NONE), "y", "offcurve"), "ES384">>, <<WithDefect(AsymKey("p256a", 1, NONE, NONE), "crv", "unknownstr"), "ES256">>,
              <<WithDefect(AsymKey("ed25519a", 1, NONE, NONE), "crv", "unknownstr"), "EdDSA">>, <<WithDefect(AsymKey("ed448a", 1, NONE, NONE), "x", "short"), "EdDSA">> }
Pub(k) == IF k.kty = "oct" THEN k ELSE [k EXCEPT !.priv = 0]
Pm == << StrM("sub", "x") >>
Script(k, a, p) ==
  << OpsOp(p), LoadOp(<<k, Pub(k)>>),
     BNewOp, BSetKeyOp(IF k.alg = NONE THEN a ELSE "none", 0), GenerateOp(0),
     CNewOp, CSetKeyOp(IF k.alg = NONE THEN a ELSE "none", 1), VerifyOp([src |-> "slot", slot |-> 0]),
     VerifyOp(Tok(a, <<>>, Pm, Sig("valid", a, Pub(k)))) >>
\* an algorithm with a key that is not of its kind at all (setkey admits an explicit algorithm with any key
\* that has no alg): in particular EdDSA with a key that is neither Ed25519 nor Ed448.  The token offered
\* carries a genuine signature by that key under the key's own algorithm.
Native(k) == CASE k.kty = "oct" -> "HS256" [] k.kty = "RSA" -> "RS256" [] k.kty = "OKP" -> "EdDSA"
               [] k.bits = 256 -> (IF k.crv = "secp256k1" THEN "ES256K" ELSE "ES256") [] k.bits = 384 -> "ES384" [] OTHER -> "ES512"
CrossKeys == { AsymKey(b, 1, NONE, NONE) : b \in {"p256a", "k256a", "bp256a", "p384a", "rsa2048a", "ed25519a", "ed448a"} } \cup {OctKey(32, "a", NONE, NONE), OctKey(57, "a", NONE, NONE)}
CrossAlgs == IF Quick THEN {"EdDSA", "ES256", "RS256", "HS256"} ELSE RealAlgs
CrossPairs == { <<k, a>> \in CrossKeys \X CrossAlgs : k.kty # Family(a) }
CrossScript(k, a, p) ==
  << OpsOp(p), LoadOp(<<k, Pub(k)>>),
     BNewOp, BSetKeyOp(a, 0), GenerateOp(0),
     CNewOp, CSetKeyOp(a, 1),
     VerifyOp(Tok(a, <<>>, Pm, Sig("valid", Native(k), Pub(k)))),
     VerifyOp(Tok(a, <<>>, Pm, Sig("valid", a, Pub(k)))) >>
\* the same pairs when key and algorithm reach the operation through the callback instead of setkey: the floor is
\* a property of the operation, not of the configuration call
CbScript(k, a, p) ==
  << OpsOp(p), LoadOp(<<k, Pub(k)>>),
     BNewOp, BSetCbOp(IF k.alg = NONE THEN <<CbKey(0), CbAlg(a)>> ELSE <<CbKey(0)>>), GenerateOp(0),
     CNewOp, CSetCbOp(IF k.alg = NONE THEN <<CbKey(1), CbAlg(a)>> ELSE <<CbKey(1)>>), VerifyOp([src |-> "slot", slot |-> 0]),
     VerifyOp(Tok(a, <<>>, Pm, Sig("valid", a, Pub(k)))) >>
\* one checker, the same key twice: first under the algorithm it is made for (accepted), then under an algorithm
\* that asks for more than the key has - with a token genuinely signed with that hash by that key.  The floor is
\* a property of the (key, algorithm) pair of the call, whatever the same key object passed before.
ReuseKeys == { <<AsymKey("p256a", 1, NONE, NONE), "ES256">>, <<AsymKey("p384a", 1, NONE, NONE), "ES384">>, <<AsymKey("k256a", 1, NONE, NONE), "ES256K">>,
               <<OctKey(32, "a", NONE, NONE), "HS256">>, <<OctKey(48, "a", NONE, NONE), "HS384">> }
Bigger(n) == IF n = "ES256" \/ n = "ES256K" THEN {"ES384", "ES512"} ELSE IF n = "ES384" THEN {"ES512", "ES256"}
             ELSE IF n = "HS256" THEN {"HS384", "HS512"} ELSE {"HS512"}
Via(f, a) == IF f = "setkey" THEN CSetKeyOp(a, 1) ELSE CSetCbOp(<<CbKey(1), CbAlg(a)>>)
ReuseScripts ==
  UNION { { << OpsOp(p), LoadOp(<<kn[1], Pub(kn[1])>>), CNewOp, Via(f1, kn[2]), VerifyOp(Tok(kn[2], <<>>, Pm, Sig("valid", kn[2], Pub(kn[1])))),
               Via(f2, a), VerifyOp(Tok(a, <<>>, Pm, Sig("valid", a, Pub(kn[1])))), VerifyOp(Tok(kn[2], <<>>, Pm, Sig("valid", kn[2], Pub(kn[1])))) >>
            : a \in Bigger(kn[2]), f1 \in {"setkey", "cb"}, f2 \in {"setkey", "cb"} }
          : kn \in ReuseKeys, p \in Providers }
C09Scripts == { Script(ka[1], ka[2], p) : ka \in Pairs \cup BadPairs, p \in Providers } \cup ReuseScripts
              \cup { CbScript(ka[1], ka[2], p) : ka \in Pairs, p \in Providers }
              \cup { CrossScript(ka[1], ka[2], p) : ka \in CrossPairs, p \in Providers }
MCSpec == ISpecWith(C09Scripts)
=============================================================================
