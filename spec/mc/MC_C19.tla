------------------------------ MODULE MC_C19 ------------------------------
(* C19: a verification callback can observe the token but not bend the     *)
(* verdict.  All callback programs up to MaxLen over header/claim set,     *)
(* replace, delete, delete-all steps x claim-check configuration x tokens  *)
(* passing or failing each check; each verify is also run without the      *)
(* callback on an identically configured checker (nocb).                   *)
EXTENDS Interp
CONSTANTS Tier, MaxLen
KOct == OctKey(32, "a", NONE, NONE)
KOct2 == OctKey(64, "a", "HS512", NONE)

Val(t, n, v, r) == [t |-> t, name |-> n, val |-> v, replace |-> r, jcls |-> NONE, jm |-> <<>>, jcanon |-> NONE]
StepSet(w, v) == [k |-> "set", which |-> w, v |-> v, map |-> 0]
StepDel(w, n) == [k |-> "del", which |-> w, v |-> Val("int", n, W0, 0), map |-> 0]
PastW == WSub(T0, WOf(100))
FutW == WAdd(T0, WOf(100))
Steps == { StepDel("clm", "exp"), StepDel("clm", "nbf"), StepDel("clm", "iss"), StepDel("clm", "aud"),
           StepDel("clm", NONE), StepDel("hdr", NONE), StepDel("hdr", "alg"),
           StepSet("clm", Val("int", "exp", FutW, 1)), StepSet("clm", Val("int", "exp", PastW, 1)),
           StepSet("clm", Val("int", "nbf", PastW, 1)), StepSet("clm", Val("int", "nbf", FutW, 0)),
           StepSet("clm", Val("str", "iss", "me", 1)), StepSet("clm", Val("str", "iss", "you", 1)),
           StepSet("clm", Val("str", "aud", "x", 0)),
           StepSet("hdr", Val("str", "alg", "none", 1)), StepSet("hdr", Val("str", "alg", "HS512", 1)) }
CtlSteps == { CbRet(1), CbRet(0), CbRet(-1), CbRet(256), CbRet(-2147483647), CbKey(0), CbAlg("HS256"), CbKey(-1), CbKey(1) }

RECURSIVE Progs(_)
Progs(n) == IF n = 0 THEN {<<>>} ELSE {<<>>} \cup { <<s>> \o p : s \in Steps, p \in Progs(n - 1) }
AllProgs == Progs(MaxLen)
             \cup { <<c>> : c \in CtlSteps } \cup { <<s, c>> : s \in Steps, c \in CtlSteps } \cup { <<c, s>> : c \in {CbRet(1), CbKey(0)}, s \in Steps }
             \cup { <<CbKey(0), CbAlg("HS256")>>, <<CbKey(1), CbAlg("none")>>, <<CbKey(1), CbAlg("HS256")>>, <<CbKey(-1), CbAlg("none")>> }

Configs == { <<>>, <<CClaimSetOp("iss", "me")>>, <<CLeewayOp("exp", WOf(-1))>>, <<CClaimSetOp("aud", "x"), CLeewayOp("nbf", WOf(200))>> }
Claims == { <<>>, <<IntM("exp", PastW)>>, <<IntM("exp", FutW)>>, <<IntM("nbf", FutW)>>, <<StrM("iss", "me"), IntM("exp", FutW)>>,
            <<StrM("iss", "you")>>, <<StrM("aud", "x"), StrM("iss", "me")>> }
Toks == { Tok("HS256", <<>>, m, Sig("valid", "HS256", KOct)) : m \in Claims }
        \cup { Tok("HS256", <<>>, <<IntM("exp", FutW)>>, Sig("flipbit", "HS256", KOct)), Tok("none", <<>>, <<IntM("exp", FutW)>>, EmptySig),
               Tok("HS512", <<>>, <<IntM("exp", PastW)>>, Sig("valid", "HS512", KOct2)) }

\* a family per (configuration, token): big explicit sets are quadratic to normalise in TLC (Interp.tla)
C19Fam ==
  [ct \in Configs \X Toks |->
     { <<LoadOp(<<KOct, KOct2>>), CNewOp, CSetKeyOp("HS256", 0)>> \o ct[1] \o <<CSetCbOp(p), VerifyOpX(ct[2], 0, 1)>> : p \in AllProgs }]
\* the checker's own key carries an alg attribute (HS512); the callback keeps the key and only relabels
\* config->alg: the pair must pass the same table as setkey (HS256 with an HS512 key is refused)
RelabelProgs == { <<CbAlg(a)>> : a \in {"HS256", "HS512", "HS384", "none", "RS256"} }
                \cup { <<CbKey(1), CbAlg(a)>> : a \in {"HS256", "HS512", "none"} } \cup { <<CbAlg("HS256"), CbKey(1)>> }
\* the callback replaces ONLY the key: the default key's alg attribute says nothing about the new key (with no
\* attribute of its own and no algorithm named, the new key is not admitted; with an attribute, that one counts)
KeyOnlyScripts ==
  LET K32a == OctKey(32, "b", "HS256", NONE) K64n == OctKey(64, "b", NONE, NONE) IN
  { <<LoadOp(<<KOct, KOct2, K32a, K64n>>), CNewOp, CSetKeyOp("none", d), CSetCbOp(<<CbKey(n)>>), VerifyOpX(t, 0, 1)>> :
      d \in {1, 2}, n \in {0, 1, 2, 3},
      t \in { Tok(a, <<>>, <<IntM("exp", FutW)>>, Sig("valid", a, k)) : a \in {"HS256", "HS512"}, k \in {KOct, KOct2, K32a, K64n} } }
RelabelToks == { Tok(a, <<>>, <<IntM("exp", FutW)>>, Sig("valid", a, KOct2)) : a \in {"HS256", "HS512", "HS384"} }
RelabelScripts ==
  { <<LoadOp(<<KOct, KOct2>>), CNewOp, CSetKeyOp("none", 1), CSetCbOp(p), VerifyOpX(t, 0, 1)>> : p \in RelabelProgs, t \in RelabelToks }
\* two verifications on one checker: in the first the callback selects a key, in the second it (or its successor,
\* or nothing after setcb(NULL, NULL)) returns 0 and leaves the configuration alone - the second verdict is the one
\* the checker's own configuration gives, the first call's selection was for that call
SelProgs == { <<CbKey(1)>>, <<CbKey(1), CbAlg("HS512")>>, <<CbKey(1), CbAlg("none")>> }
AfterProgs == { <<>>, <<CbRet(0)>>, <<StepSet("clm", Val("str", "iss", "me", 1))>>, <<StepDel("hdr", NONE)>> }
TK1 == Tok("HS256", <<>>, <<IntM("exp", FutW)>>, Sig("valid", "HS256", KOct))
TK2 == Tok("HS512", <<>>, <<IntM("exp", FutW)>>, Sig("valid", "HS512", KOct2))
SeqScripts ==
  { <<LoadOp(<<KOct, KOct2>>), CNewOp>> \o su \o <<CSetCbOp(sel), VerifyOpX(TK2, 0, 1), after, VerifyOpX(t, 0, 1)>> :
      su \in { <<>>, <<CSetKeyOp("HS256", 0)>> }, sel \in SelProgs,
      after \in { CSetCbOp(p) : p \in AfterProgs } \cup { CSetCbOff }, t \in {TK1, TK2} }
\* the documented context-only update setcb(NULL, ctx) keeps the callback: one that refuses still refuses, one that
\* selects the key still selects it; after setcb(NULL, NULL) a context-only update is refused and nothing runs
CtxScripts ==
  { <<LoadOp(<<KOct, KOct2>>), CNewOp>> \o su \o <<CSetCbOp(p)>> \o ctx \o <<VerifyOpX(t, 0, 1)>> :
      su \in { <<>>, <<CSetKeyOp("HS256", 0)>> },
      p \in { <<CbRet(1)>>, <<CbRet(-1)>>, <<CbKey(1), CbAlg("HS512")>>, <<CbKey(0), CbAlg("HS256")>>, <<StepDel("clm", NONE), CbRet(1)>> },
      ctx \in { <<CSetCbCtxOp>>, <<CSetCbCtxOp, CSetCbCtxOp>>, <<CSetCbOff, CSetCbCtxOp>> }, t \in {TK1, TK2} }
\* stage 'faults': every allocation request made inside jwt_checker_verify fails once, on checkers whose callback
\* rewrites the very claim the token fails on: also when memory runs short the verdict is about the claims that
\* were signed
FaultScripts ==
  { <<LoadOp(<<KOct, KOct2>>), CNewOp, CSetKeyOp("HS256", 0)>> \o cf \o <<CSetCbOp(pt[1]), VerifyOpX(Tok("HS256", <<>>, pt[2], Sig("valid", "HS256", KOct)), 0, 1)>> :
      cf \in { <<>>, <<CClaimSetOp("iss", "me")>> },
      pt \in { << <<StepSet("clm", Val("int", "exp", FutW, 1))>>, <<IntM("exp", PastW)>> >>,
               << <<StepDel("clm", "exp")>>, <<IntM("exp", PastW)>> >>,
               << <<StepSet("clm", Val("int", "nbf", PastW, 1))>>, <<IntM("nbf", FutW)>> >>,
               << <<StepSet("clm", Val("str", "iss", "me", 1))>>, <<StrM("iss", "you"), IntM("exp", PastW)>> >>,
               << <<StepDel("clm", NONE)>>, <<IntM("exp", PastW), StrM("iss", "you")>> >>,
               << <<StepSet("clm", Val("str", "aud", "x", 0))>>, <<IntM("exp", FutW)>> >> } }
MCSpecFault == ISpecP(script \in FaultScripts)
MCSpec == ISpecP(InFam(C19Fam) \/ script \in RelabelScripts \/ script \in SeqScripts \/ script \in CtxScripts \/ script \in KeyOnlyScripts)
=============================================================================
