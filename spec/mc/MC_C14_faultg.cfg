SPECIFICATION MCSpecFaultG
CONSTANTS Tier = "quick"
INVARIANT RefVerifyOK RefGenerateOK RefSetKeyOK Emit
CHECK_DEADLOCK FALSE
