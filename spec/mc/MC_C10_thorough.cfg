SPECIFICATION MCSpec
CONSTANTS Tier = "thorough" MaxLen = 3
INVARIANT RefGenerateOK RefSetKeyOK Emit
PROPERTY GenerateIsPure
CHECK_DEADLOCK FALSE
