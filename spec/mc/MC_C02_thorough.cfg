SPECIFICATION MCSpec
CONSTANT Tier = "thorough"
INVARIANT RefSatisfiesC02 TableIsTheDocumentedOne Emit
CHECK_DEADLOCK FALSE
