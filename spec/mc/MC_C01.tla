------------------------------ MODULE MC_C01 ------------------------------
(* C01: no token is accepted without a valid signature by the configured   *)
(* key.  Key class x admissible algorithm x provider x signature class     *)
(* (valid and every mutation / re-targeting / wrong-key / wrong-alg /      *)
(* attacker-computable-HMAC class) x post-signing alteration.              *)
EXTENDS Interp
CONSTANTS Tier, Reps
Quick == Tier = "quick"

\* <<key descriptor (public form where asymmetric), algorithm>>
KA(k, a) == <<k, a>>
Pairs ==
  { KA(OctKey(32, "a", NONE, NONE), "HS256"), KA(OctKey(64, "a", NONE, NONE), "HS512"),
    KA(AsymKey("rsa2048a", 0, NONE, NONE), "RS256"), KA(AsymKey("rsa2048a", 0, NONE, NONE), "PS256"),
    KA(AsymKey("rsa2048a", 0, "PS384", NONE), "PS384"), KA(AsymKey("rsa2052a", 0, NONE, NONE), "RS256"),
    KA(AsymKey("p256a", 0, NONE, NONE), "ES256"), KA(AsymKey("p384a", 0, NONE, NONE), "ES384"),
    KA(AsymKey("p521a", 0, NONE, NONE), "ES512"), KA(AsymKey("k256a", 0, NONE, NONE), "ES256K"),
    KA(AsymKey("ed25519a", 0, NONE, NONE), "EdDSA"), KA(AsymKey("ed448a", 0, NONE, NONE), "EdDSA"),
    \* pairs the setkey table admits (explicit algorithm, key without alg) although no signature can be
    \* valid for them: an HS* algorithm with a public key.  Whatever MAC the attacker computes is refused.
    KA(AsymKey("rsa2048a", 0, NONE, NONE), "HS256"), KA(AsymKey("p256a", 0, NONE, NONE), "HS256"),
    KA(AsymKey("ed25519a", 0, NONE, NONE), "HS512") }
  \cup (IF Quick THEN {} ELSE
  { KA(OctKey(48, "a", NONE, NONE), "HS384"), KA(OctKey(64, "a", NONE, NONE), "HS256"), KA(OctKey(160, "a", "HS512", NONE), "HS512"),
    KA(AsymKey("rsa2048a", 0, NONE, NONE), "RS384"), KA(AsymKey("rsa2048a", 0, NONE, NONE), "RS512"),
    KA(AsymKey("rsa3072a", 0, NONE, NONE), "PS512"), KA(AsymKey("rsa4096a", 0, "RS256", NONE), "RS256"),
    KA(AsymKey("rsa2048a", 1, NONE, NONE), "RS256"), KA(AsymKey("p256a", 1, "ES256", NONE), "ES256"),
    KA(AsymKey("ed448a", 0, NONE, NONE), "HS384"), KA(AsymKey("p521a", 0, NONE, NONE), "HS512"), KA(AsymKey("rsa3072a", 0, NONE, NONE), "HS384") })

Sibling(a) == CASE a = "HS256" -> "HS384" [] a = "HS384" -> "HS512" [] a = "HS512" -> "HS256"
                [] a = "RS256" -> "RS384" [] a = "RS384" -> "RS512" [] a = "RS512" -> "PS512"
                [] a = "PS256" -> "RS256" [] a = "PS384" -> "PS256" [] a = "PS512" -> "PS384"
                [] OTHER -> a
OtherKey(k) == IF k.kty = "oct" THEN [k EXCEPT !.var = "b"]
               ELSE CASE k.base \in {"rsa2048a", "rsa4096a", "rsa2052a"} -> AsymKey("rsa2048b", 0, NONE, NONE)
                      [] k.base = "rsa3072a" -> AsymKey("rsa3072b", 0, NONE, NONE)
                      [] k.base = "p256a" -> AsymKey("p256b", 0, NONE, NONE)
                      [] k.base = "p384a" -> AsymKey("p384b", 0, NONE, NONE)
                      [] k.base = "p521a" -> AsymKey("p521b", 0, NONE, NONE)
                      [] k.base = "k256a" -> AsymKey("k256b", 0, NONE, NONE)
                      [] k.base = "ed25519a" -> AsymKey("ed25519b", 0, NONE, NONE)
                      [] k.base = "ed448a" -> AsymKey("ed448b", 0, NONE, NONE)

S(cls, a, k) == Sig(cls, a, k)
Over(s, o) == [s EXCEPT !.over = o]
SigClasses(k, a) ==
  { S("valid", a, k), S("noncanon", a, k), S("empty", a, k), S("garbage", a, k) @@ [len |-> 64],
    S("garbage", a, k) @@ [len |-> 256], S("notb64", a, k), S("prefixdup", a, k),
    S("flipbit", a, k) @@ [where |-> "first"], S("flipbit", a, k) @@ [where |-> "last"], S("flipbit", a, k) @@ [where |-> "any"],
    S("trunc", a, k) @@ [n |-> 1], S("trunc", a, k) @@ [n |-> 2], S("extend", a, k) @@ [n |-> 1, zero |-> 0], S("extend", a, k) @@ [n |-> 1, zero |-> 1],
    S("extend", a, k) @@ [n |-> 3, zero |-> 0],
    \* the genuine signature TEXT followed by more characters of the alphabet: by 1, 4, and by multiples of 256 (a length
    \* kept in eight bits), a comparison that stops at the shorter string
    S("textext", a, k) @@ [tn |-> 1], S("textext", a, k) @@ [tn |-> 4], S("textext", a, k) @@ [tn |-> 255], S("textext", a, k) @@ [tn |-> 256],
    S("textext", a, k) @@ [tn |-> 512], S("textext", a, k) @@ [tn |-> 1024], S("textext", a, k) @@ [tn |-> 65536],
    Over(S("valid", a, k), "hdronly"), Over(S("valid", a, k), "payonly"), Over(S("valid", a, k), "trailingdot"),
    Over(S("valid", a, k), "swapped"), Over(S("valid", a, k), "other"), Over(S("valid", a, k), "decoded"),
    S("valid", a, OtherKey(k)), S("valid", Sibling(a), k) }
  \cup (IF a \in ESAlgs THEN { S("zeropad", a, k) @@ [w |-> w] : w \in {x \in {48, 66, 70} : 2 * x > EsSigLen(a)} } \cup { S("der", a, k) } ELSE {})
  \cup (IF a \in HSAlgs THEN { S("hmacempty", a, k), S("hmaczero32", a, k) @@ [len |-> 32] } ELSE {})
  \cup (IF a \in HSAlgs /\ k.kty # "oct" THEN { S("hmacpubpem", a, k) } ELSE {})
  \* a MAC that begins with / contains a zero octet, offered with every octet after it changed
  \cup (IF a \in HSAlgs /\ k.kty = "oct" THEN { S("zerohead", a, k), S("zerotail", a, k) } ELSE {})
Alters == {"hdr", "pay", "paycase"}

Pm == << StrM("sub", "x"), IntM("n", WOf(7)) >>
TokWith(a, sg, alt, rep) == [Tok(a, <<StrM("typ", "JWT")>>, Pm, sg) EXCEPT !.alter = alt] @@ [rep |-> rep]

Verifies(k, a) ==
  { VerifyOp(TokWith(a, sg, "none", r)) : sg \in SigClasses(k, a), r \in 1..Reps }
  \cup { VerifyOp(TokWith(a, S("valid", a, k), alt, r)) : alt \in Alters, r \in 1..Reps }
  \* the genuine signature moved behind extra segments (it is the LAST segment, not the third)
  \cup { VerifyOp([TokWith(a, S("valid", a, k), "none", 1) EXCEPT !.shape = sh]) : sh \in {"4seg", "4segempty", "4segmid", "4segmidempty", "5segmid", "dupsig",
                                                                                                   "tailnl", "tailcrlf", "tailcr", "tailnlx", "tailsp", "tailtab", "leadnl", "leadsp"} }
  \* re-targeted to "no algorithm": header alg none with an empty third segment, and with the genuine signature kept
  \cup { VerifyOp(TokWith("none", sg, "none", 1)) : sg \in {EmptySig, S("valid", a, k)} }

\* one script per (pair, provider, route, signature class): short cases, so that one
\* rejected case does not hide another class
Setup(k, a, p, route) ==
  <<OpsOp(p), LoadOp(<<IF route = "attr" THEN [k EXCEPT !.alg = a] ELSE k>>), CNewOp,
    IF route = "attr" THEN CSetKeyOp("none", 0) ELSE IF k.alg = NONE THEN CSetKeyOp(a, 0) ELSE CSetKeyOp("none", 0)>>
Routes == {"explicit", "attr"}
C01Scripts ==
  UNION { { Setup(ka[1], ka[2], p, rt) \o <<v>> : v \in Verifies(ka[1], ka[2]) }
          : ka \in Pairs, p \in Providers, rt \in Routes }

\* a callback that selects ANOTHER key for one token: afterwards (callback removed, or selecting nothing) the checker's
\* own key decides again - a token signed by the other key is refused
CbPairs == { <<OctKey(32, "a", NONE, NONE), OctKey(32, "b", NONE, NONE), "HS256">>,
             <<AsymKey("rsa2048a", 0, NONE, NONE), AsymKey("rsa2048b", 0, NONE, NONE), "RS256">>,
             <<AsymKey("p256a", 0, NONE, NONE), AsymKey("p256b", 0, NONE, NONE), "ES256">>,
             <<AsymKey("ed25519a", 0, NONE, NONE), AsymKey("ed25519b", 0, NONE, NONE), "EdDSA">> }
CallbackScripts ==
  { << OpsOp(p), LoadOp(<<t[1], t[2]>>), CNewOp, CSetKeyOp(t[3], 0),
       ForgeOp(0, TokWith(t[3], S("valid", t[3], t[1]), "none", 1)), ForgeOp(1, TokWith(t[3], S("valid", t[3], t[2]), "none", 1)),
       VerifyOp(SlotTok(0)), VerifyOp(SlotTok(1)),
       CSetCbOp(<<CbKey(1)>>), VerifyOp(SlotTok(1)), VerifyOp(SlotTok(0)),
       after, VerifyOp(SlotTok(1)), VerifyOp(SlotTok(0)) >> :
      t \in CbPairs, p \in Providers, after \in {CSetCbOff, CSetCbOp(<<>>), CSetCbOp(<<CbRet(0)>>)} }
\* a configuration call that is REFUSED (an algorithm of another family, an algorithm without a key, a second key
\* whose alg attribute contradicts) leaves the checker with the key it had: unsigned and stripped tokens stay refused,
\* the genuine one stays accepted, another key's token stays refused
WrongAlg(a) == IF a \in HSAlgs THEN "RS256" ELSE "HS256"
RefusedScripts ==
  { << OpsOp(p), LoadOp(<<t[1], [t[2] EXCEPT !.alg = WrongAlg(t[3])]>>), CNewOp, CSetKeyOp(t[3], 0), bad,
       VerifyOp(TokWith("none", EmptySig, "none", 1)), VerifyOp(TokWith(t[3], EmptySig, "none", 1)),
       VerifyOp(TokWith(t[3], S("valid", t[3], t[1]), "none", 1)), VerifyOp(TokWith(t[3], S("valid", t[3], t[2]), "none", 1)) >> :
      t \in CbPairs, p \in Providers,
      bad \in { CSetKeyOp("RS256", 0), CSetKeyOp("HS256", 0), CSetKeyOp("HS256", -1), CSetKeyOp("ES256", 1), CSetKeyOp("EdDSA", 1), CSetKeyOp("INVAL", 0) } }
MCSpec == ISpecFam(<<C01Scripts, CallbackScripts, RefusedScripts>>)
\* stage 'faults': every allocation request made inside jwt_checker_verify fails once - with and without a callback
\* installed - on tokens that must be refused: running short of memory is no reason to accept
FaultScripts ==
  { << OpsOp(p), LoadOp(<<t[1]>>), CNewOp, CSetKeyOp(t[3], 0) >> \o cb \o
    << VerifyOp([TokWith(t[3], S("valid", t[3], t[1]), "none", 1) EXCEPT !.alter = "pay"]),
       VerifyOp(TokWith(t[3], S("flipbit", t[3], t[1]) @@ [where |-> "any"], "none", 1)),
       VerifyOp(TokWith(t[3], EmptySig, "none", 1)), VerifyOp(TokWith("none", EmptySig, "none", 1)),
       VerifyOp(TokWith(t[3], S("valid", t[3], t[2]), "none", 1)) >> :
      t \in CbPairs, p \in Providers, cb \in { <<>>, <<CSetCbOp(<<>>)>>, <<CSetCbOp(<<[k |-> "read"]>>)>> } }
MCSpecFault == ISpecFam(<<FaultScripts>>)
\* non-vacuity: valid signatures are accepted by the reference
=============================================================================
