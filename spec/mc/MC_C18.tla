------------------------------ MODULE MC_C18 ------------------------------
(* C18: separate builders/checkers sharing one keyring are safe to use     *)
(* concurrently.  On the specification: three threads, each with its own   *)
(* builder and checker (objects 0..2) over one shared keyring, take their  *)
(* steps (generate ; verify own token ; verify a damaged token) in every   *)
(* interleaving; every result must equal the result of the same call made  *)
(* alone.  The harness runs the real thing under ThreadSanitizer.          *)
EXTENDS Cells
CONSTANT Tier
VARIABLES tpc, results
T == 0..2
KOct == OctKey(32, "a", NONE, NONE)
KRsa == AsymKey("rsa2048a", 1, NONE, NONE)
KEc == AsymKey("p256a", 1, NONE, NONE)
Keys == <<KOct, KRsa, KEc>>
AlgOf == <<"HS256", "RS256", "ES256">>

MCInit ==
  /\ now = T0 /\ ops = "openssl" /\ nextId = 3
  /\ rings = RingsOf(Keys)
  /\ builders = [b \in ObjIds |-> IF b \in T THEN BuilderWith(AlgOf[b + 1], ItemOf(Keys, b)) ELSE Dead]
  /\ checkers = [c \in ObjIds |-> IF c \in T THEN CheckerWith(AlgOf[c + 1], ItemOf(Keys, c)) ELSE Dead]
  /\ toks = [s \in SlotIds |-> NullG]
  /\ tpc = [t \in T |-> 0] /\ results = [t \in T |-> <<>>]

\* what thread t's call number n returns when made alone, from the initial configuration
Alone(t, n) ==
  LET b == BuilderWith(AlgOf[t + 1], ItemOf(Keys, t))
      c == CheckerWith(AlgOf[t + 1], ItemOf(Keys, t))
      g == GenRefG(b, T0, RingsOf(Keys), "openssl")
      pt == ParseSlot(g)
      cb == VerifyCfg(c, pt, RingsOf(Keys))
  IN CASE n = 0 -> g.ret
       [] n = 1 -> VerifyRef(c, pt, cb, SigOKSlot(g, cb.cfg.key), T0, "openssl")
       [] OTHER -> VerifyRef(c, pt, cb, FALSE, T0, "openssl")

Step(t) ==
  /\ tpc[t] < 3
  /\ tpc' = [tpc EXCEPT ![t] = @ + 1]
  /\ CASE tpc[t] = 0 ->
            LET g == GenRefG(builders[t], now, rings, ops) IN
            /\ Generate(t, t, g, 0, 0)
            /\ results' = [results EXCEPT ![t] = Append(@, g.ret)]
       [] tpc[t] = 1 ->
            LET pt == ParseSlot(toks[t]) cb == VerifyCfg(checkers[t], pt, rings)
                r == VerifyRef(checkers[t], pt, cb, SigOKSlot(toks[t], cb.cfg.key), now, ops) IN
            /\ Verify(t, RetOf(r), RetOf(r))
            /\ results' = [results EXCEPT ![t] = Append(@, r)]
       [] OTHER ->
            LET pt == ParseSlot(toks[t]) cb == VerifyCfg(checkers[t], pt, rings)
                r == VerifyRef(checkers[t], pt, cb, FALSE, now, ops) IN
            /\ Verify(t, RetOf(r), RetOf(r))
            /\ results' = [results EXCEPT ![t] = Append(@, r)]
MCNext == \E t \in T : Step(t)
MCSpec == MCInit /\ [][MCNext]_<<vars, tpc, results>>

\* every interleaving gives every thread the results it gets alone
SameAsAlone == \A t \in T : \A n \in 1..Len(results[t]) : results[t][n] = Alone(t, n - 1)
\* the shared keyring and the provider are never written
SharedReadOnly == [][rings' = rings /\ ops' = ops /\ now' = now]_<<vars, tpc, results>>

\* scripts for the harness (printed once, from the initial state)
Spec(a, k, vk, det) == [alg |-> a, key |-> k, vkey |-> vk, det |-> det]
AllKeys == << OctKey(32, "a", NONE, NONE), OctKey(64, "a", NONE, NONE), AsymKey("rsa2048a", 1, NONE, NONE), AsymKey("rsa2048a", 0, NONE, NONE),
              AsymKey("p256a", 1, NONE, NONE), AsymKey("p256a", 0, NONE, NONE), AsymKey("p384a", 1, NONE, NONE), AsymKey("p521a", 1, NONE, NONE),
              AsymKey("ed25519a", 1, NONE, NONE), AsymKey("ed25519a", 0, NONE, NONE), AsymKey("ed448a", 1, NONE, NONE), AsymKey("k256a", 1, NONE, NONE) >>
Specs(p) == << Spec("HS256", 0, 0, 1), Spec("HS512", 1, 1, 1), Spec("RS256", 2, 3, 1), Spec("PS256", 2, 3, 0),
               Spec("ES256", 4, 5, 0), Spec("ES384", 6, 6, 0), Spec("ES512", 7, 7, 0), Spec("EdDSA", 8, 9, 1), Spec("EdDSA", 10, 10, 1),
               Spec("HS256", 0, 0, 1), Spec("RS256", 2, 3, 1), Spec("ES256", 4, 5, 0) >>
             \* ... and threads whose every signing request the provider REFUSES (ES256K under GnuTLS, ES256 with an
             \* Ed25519 key under either): a refusal in one thread is nobody else's business
             \o << Spec("ES256K", 11, 11, 0), Spec("ES256", 8, 9, 0) >>
Iters == IF Tier = "quick" THEN 150 ELSE 2000
Kid(i) == CASE i = 1 -> "k1" [] i = 2 -> "k2" [] i = 3 -> "k3" [] i = 4 -> "k4" [] i = 5 -> "k5" [] i = 6 -> "k6" [] i = 7 -> "k7"
            [] i = 8 -> "k8" [] i = 9 -> "k9" [] i = 10 -> "k10" [] i = 11 -> "k11" [] OTHER -> "k12"
KeysWithKid == [i \in 1..Len(AllKeys) |-> [AllKeys[i] EXCEPT !.kid = Kid(i)]]
\* bykid = 1: every thread looks its keys up by kid in the shared keyring from its callbacks, at every call;
\* bykid = 2: it walks the shared keyring by index (jwks_item_count / jwks_item_get) and picks the key by kid
Script(p, rep) == << OpsOp(p), LoadOp(KeysWithKid),
                     [op |-> "Threads", ring |-> 0, iters |-> Iters, skew |-> 1, rep |-> rep, bykid |-> rep % 3, parfirst |-> (rep \div 3) % 2, specs |-> Specs(p)] >>
Emit == (\A t \in T : tpc[t] = 0) =>
          \A p \in Providers : \A rep \in 1..(IF Tier = "quick" THEN 6 ELSE 30) : PrintT(<<"SCRIPT", ToJson(Script(p, rep))>>)
=============================================================================
