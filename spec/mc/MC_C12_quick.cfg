SPECIFICATION MCSpec
CONSTANTS Tier = "quick"
INVARIANT RefVerifyOK RefGenerateOK RefSetKeyOK Emit
PROPERTY SwitchOnlyExact
CHECK_DEADLOCK FALSE
