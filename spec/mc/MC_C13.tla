------------------------------ MODULE MC_C13 ------------------------------
(* C13: a verdict depends only on configuration, token and clock.          *)
(* All sequences up to MaxLen of verify calls (valid, invalid at each      *)
(* layer, NULL/empty), failing callbacks, refused setkey and error_clear   *)
(* on one checker - and of generate calls on one builder; every call is    *)
(* also made on a fresh identically configured twin (driver: "twin").      *)
EXTENDS Interp
CONSTANTS Tier, MaxLen, Part

KOct == OctKey(32, "a", NONE, NONE)
KShort == OctKey(16, "a", NONE, NONE)
K512 == OctKey(64, "a", NONE, NONE)
Good == Tok("HS256", <<>>, <<StrM("iss", "me")>>, Sig("valid", "HS256", KOct))
V(t) == VerifyOpX(t, 1, 0)
CkElems ==
  { <<V(Good)>>,
    <<V([Good EXCEPT !.sig = Sig("flipbit", "HS256", KOct)])>>,
    <<V([Good EXCEPT !.pay.m = <<IntM("exp", WSub(T0, WOf(9)))>>])>>,
    <<V([Good EXCEPT !.shape = "0dot"])>>,
    <<V([Good EXCEPT !.hdr.cls = "notjson"])>>,
    <<V([Good EXCEPT !.hdr.alg = NONE])>>,
    <<V([Good EXCEPT !.shape = "null"])>>,
    <<V([Good EXCEPT !.shape = "empty"])>>,
    <<V(Tok("HS512", <<>>, <<>>, Sig("valid", "HS512", K512)))>>,
    <<CSetCbOp(<<CbRet(1)>>), V(Good), CSetCbOp(<<CbRet(0)>>)>>,
    <<CSetKeyOp("none", 0), V(Good)>>,
    \* a callback that selects another key for one call only (lookup-by-kid pattern), then stops doing so
    <<CSetCbOp(<<CbKey(2), CbAlg("HS512")>>), V(Tok("HS512", <<>>, <<>>, Sig("valid", "HS512", K512))), CSetCbOp(<<CbRet(0)>>)>>,
    <<[op |-> "CErrClear", c |-> 0]>> }
RECURSIVE CkSeqs(_)
CkSeqs(n) == IF n = 0 THEN {<<>>} ELSE { e \o t : e \in CkElems, t \in CkSeqs(n - 1) }
\* families indexed by the first two elements (MaxLen >= 2): one explicit set of 13^5 sequences costs TLC
\* minutes to normalise (binary insertion sort), 169 sets of 13^3 do not
Pre3 == <<LoadOp(<<KOct, KShort, K512>>), CNewOp, CSetKeyOp("HS256", 0)>>
CheckerFam == [ab \in CkElems \X CkElems |-> { Pre3 \o ab[1] \o ab[2] \o q : q \in CkSeqs(MaxLen - 2) }]
\* a checker that never had setkey: keys come from the callback, per call
Unsigned == Tok("none", <<>>, <<StrM("iss", "me")>>, EmptySig)
NkElems ==
  { <<V(Unsigned)>>, <<V(Good)>>,
    <<CSetCbOp(<<CbKey(0), CbAlg("HS256")>>), V(Good), CSetCbOp(<<CbRet(0)>>)>>,
    <<CSetCbOp(<<CbKey(2), CbAlg("HS512")>>), V(Unsigned), CSetCbOp(<<CbRet(0)>>)>>,
    <<[op |-> "CErrClear", c |-> 0]>> }
RECURSIVE NkSeqs(_)
NkSeqs(n) == IF n = 0 THEN {<<>>} ELSE { e \o t : e \in NkElems, t \in NkSeqs(n - 1) }
NoKeyFam == [ab \in NkElems \X NkElems |-> { <<LoadOp(<<KOct, KShort, K512>>), CNewOp>> \o ab[1] \o ab[2] \o q : q \in NkSeqs(MaxLen - 2) }]

\* a checker with claim expectations, set, refused (a value that is not UTF-8: the claim stays mandatory
\* with nothing to compare to) and deleted between calls
Other == Tok("HS256", <<>>, <<StrM("iss", "you")>>, Sig("valid", "HS256", KOct))
ClElems ==
  { <<V(Good)>>, <<V(Other)>>, <<V(Tok("HS256", <<>>, <<>>, Sig("valid", "HS256", KOct)))>>,
    <<CClaimSetOp("iss", "me")>>, <<CClaimSetOp("iss", "#hex:fffe")>>, <<CClaimSetOp("sub", "#hex:c0af")>>,
    <<CClaimDelOp("iss")>>, <<[op |-> "CErrClear", c |-> 0]>> }
RECURSIVE ClSeqs(_)
ClSeqs(n) == IF n = 0 THEN {<<>>} ELSE { e \o t : e \in ClElems, t \in ClSeqs(n - 1) }
\* asymmetric keys: refused RS256 / ES256 tokens and an unusable JWK between verifies of a good ES256 token (what an
\* earlier failure leaves behind in the crypto library is hidden state too - the verdict is a function of configuration,
\* token and clock, which the clause C13.function states outright)
KEc13 == AsymKey("p256a", 0, NONE, NONE)
KRsa13 == AsymKey("rsa2048a", 0, NONE, NONE)
GoodEc == Tok("ES256", <<>>, <<StrM("iss", "me")>>, Sig("valid", "ES256", KEc13))
PreEc == <<LoadOp(<<KEc13, KRsa13>>), CNewOp, CSetKeyOp("ES256", 0)>>
EcElems == { <<V(GoodEc)>>, <<V([GoodEc EXCEPT !.sig = Sig("flipbit", "ES256", KEc13)])>>,
             \* the signature just accepted, under a payload / a header altered after signing
             <<V([GoodEc EXCEPT !.alter = "pay"])>>, <<V([GoodEc EXCEPT !.alter = "hdr"])>>,
             <<CSetKeyOp("RS256", 1), V(Tok("RS256", <<>>, <<>>, Sig("garbage", "RS256", KRsa13) @@ [len |-> 256])), CSetKeyOp("ES256", 0)>>,
             <<[op |-> "Load", ring |-> 0, via |-> "load", doc |-> "keys", keys |-> <<WithDefect(AsymKey("p256b", 0, NONE, "bad"), "y", "offcurve")>>]>>,
             <<[op |-> "CErrClear", c |-> 0]>> }
RECURSIVE EcSeqs(_)
EcSeqs(n) == IF n = 0 THEN {<<>>} ELSE { e \o t : e \in EcElems, t \in EcSeqs(n - 1) }
EcFam == [ab \in EcElems \X EcElems |-> { PreEc \o ab[1] \o ab[2] \o q : q \in EcSeqs(MaxLen - 2) }]
\* a refusing callback that STAYS installed (the calls after a refusal still go through it), an accepting
\* one, removal and the context-only update, between verifies
LifeElems == { <<V(Good)>>, <<V([Good EXCEPT !.sig = Sig("flipbit", "HS256", KOct)])>>, <<CSetCbOp(<<CbRet(1)>>)>>, <<CSetCbOp(<<CbRet(0)>>)>>,
               <<CSetCbOff>>, <<CSetCbCtxOp>>, <<[op |-> "CErrClear", c |-> 0]>> }
RECURSIVE LifeSeqs(_)
LifeSeqs(n) == IF n = 0 THEN {<<>>} ELSE { e \o t : e \in LifeElems, t \in LifeSeqs(n - 1) }
LifeFam == [ab \in LifeElems \X LifeElems |-> { Pre3 \o ab[1] \o ab[2] \o q : q \in LifeSeqs(MaxLen - 2) }]
ClaimFam == [ab \in ClElems \X ClElems |-> { Pre3 \o ab[1] \o ab[2] \o q : q \in ClSeqs(MaxLen - 2) }]

G == [op |-> "Generate", b |-> 0, slot |-> 0, twin |-> 1]
Val(t, n, v, r) == [t |-> t, name |-> n, val |-> v, replace |-> r, jcls |-> NONE, jm |-> <<>>, jcanon |-> NONE]
BdElems ==
  { <<G>>,
    <<BSetCbOp(<<CbRet(1)>>), G, BSetCbOp(<<CbRet(0)>>)>>,
    <<BSetKeyOp("HS256", 1), G, BSetKeyOp("HS256", 0)>>,                          \* key below the floor, then back
    <<BSetKeyOp("none", 0), G>>,                                                  \* refused setkey leaves the flag set
    <<[op |-> "BErrClear", b |-> 0]>>,
    <<BSetCbOp(<<CbKey(2), CbAlg("HS512")>>), G, BSetCbOp(<<CbRet(0)>>)>>,              \* callback picks another key once
    <<[op |-> "BMap", b |-> 0, k |-> "set", which |-> "clm", v |-> Val("str", "sub", "x", 1)], G>> }
RECURSIVE BdSeqs(_)
BdSeqs(n) == IF n = 0 THEN {<<>>} ELSE { e \o t : e \in BdElems, t \in BdSeqs(n - 1) }
BuilderFam == [ab \in BdElems \X BdElems |-> { <<LoadOp(<<KOct, KShort, K512>>), BNewOp, BSetKeyOp("HS256", 0)>> \o ab[1] \o ab[2] \o q : q \in BdSeqs(MaxLen - 2) }]
\* RSA keys of different sizes under one algorithm, smaller first and larger first, through setkey and the callback:
\* what the process signed before is no part of the configuration
KR2 == AsymKey("rsa2048a", 1, NONE, NONE)
KR3 == AsymKey("rsa3072a", 1, NONE, NONE)
KR4 == AsymKey("rsa4096a", 1, NONE, NONE)
SizeScripts ==
  { <<LoadOp(<<KR2, KR3, KR4>>), BNewOp, BSetKeyOp(a, i), G, BSetKeyOp(a, j), G, BSetCbOp(<<CbKey(k), CbAlg(a)>>), G, BSetKeyOp(a, i), G>> :
      a \in {"RS256", "PS256", "RS512"}, i \in {0, 1, 2}, j \in {0, 1, 2}, k \in {0, 2} }
BuilderNoKey == { <<LoadOp(<<KOct, KShort, K512>>), BNewOp>> \o q : q \in BdSeqs(IF MaxLen > 3 THEN 3 ELSE MaxLen) }

\* (no definition of the union of the families: TLC evaluates constant definitions eagerly, and the union
\* of big unnormalised sets is quadratic - see ISpecFam in Interp.tla)
\* Part "nc": tokens whose header or payload segment is not canonically encoded, among canonical ones of other
\* lengths - whether such a segment is taken is not stated (status "any"), but it is the same answer every time.
\* The stage runs under an application allocator whose fresh blocks hold something else each time: what a
\* verdict is computed from is configuration, token and clock, not what the heap happened to hold.
LongH == [Good EXCEPT !.hdr.m = <<StrM("kid", "k1")>>]
NcElems ==
  { <<V(Good)>>, <<V([Good EXCEPT !.hdr.cls = "objnc"])>>, <<V([Good EXCEPT !.pay.cls = "objnc"])>>,
    <<V([Good EXCEPT !.hdr.cls = "objnc", !.pay.cls = "objnc"])>>, <<V(LongH)>>, <<V([LongH EXCEPT !.hdr.cls = "objnc"])>>,
    <<V([Good EXCEPT !.pay.m = <<StrM("iss", "me"), StrM("sub", "s")>>, !.pay.cls = "objnc"])>>,
    <<V([Good EXCEPT !.sig = Sig("flipbit", "HS256", KOct)])>>, <<[op |-> "CErrClear", c |-> 0]>> }
RECURSIVE NcSeqs(_)
NcSeqs(n) == IF n = 0 THEN {<<>>} ELSE { e \o t : e \in NcElems, t \in NcSeqs(n - 1) }
NcFam == [a \in NcElems |-> { Pre3 \o a \o q : q \in NcSeqs(3) }]
\* deterministic public-key signatures (RS256, EdDSA): the token just accepted, then the same signature under a
\* payload / a header altered after signing - what was accepted before is no reason to accept now
KEd13 == AsymKey("ed25519a", 0, NONE, NONE)
GoodOf(a, k) == Tok(a, <<>>, <<StrM("iss", "me")>>, Sig("valid", a, k))
MemoElems(a, k) == { <<V(GoodOf(a, k))>>, <<V([GoodOf(a, k) EXCEPT !.alter = "pay"])>>, <<V([GoodOf(a, k) EXCEPT !.alter = "hdr"])>>,
                     <<V([GoodOf(a, k) EXCEPT !.sig = Sig("flipbit", a, k)])>>, <<[op |-> "CErrClear", c |-> 0]>> }
RECURSIVE MemoSeqs(_, _, _)
MemoSeqs(n, a, k) == IF n = 0 THEN {<<>>} ELSE { e \o t : e \in MemoElems(a, k), t \in MemoSeqs(n - 1, a, k) }
MemoFam == [ak \in { <<"RS256", KRsa13>>, <<"EdDSA", KEd13>> } |->
              { <<LoadOp(<<ak[2]>>), CNewOp, CSetKeyOp(ak[1], 0)>> \o q : q \in MemoSeqs(4, ak[1], ak[2]) }]
\* the clock moves forwards AND backwards between calls (a corrected clock, a test harness): the verdict is computed
\* from the clock of the call, not from any clock seen before
Tmid == WAdd(T0, WOf(500))
ClkElems ==
  { <<ClockOp(WAdd(T0, WOf(1000)))>>, <<ClockOp(T0)>>, <<ClockOp(WSub(T0, WOf(1000)))>>,
    <<V([Good EXCEPT !.pay.m = <<IntM("exp", Tmid)>>])>>, <<V([Good EXCEPT !.pay.m = <<IntM("nbf", Tmid)>>])>>,
    <<V([Good EXCEPT !.pay.m = <<IntM("exp", Tmid)>>, !.sig = Sig("flipbit", "HS256", KOct)])>>,
    <<V([Good EXCEPT !.pay.m = <<IntM("exp", WSub(T0, WOf(500))), IntM("nbf", WSub(T0, WOf(500)))>>])>>, <<[op |-> "CErrClear", c |-> 0]>> }
RECURSIVE ClkSeqs(_)
ClkSeqs(n) == IF n = 0 THEN {<<>>} ELSE { e \o t : e \in ClkElems, t \in ClkSeqs(n - 1) }
ClkFam == [a \in ClkElems |-> { Pre3 \o a \o q : q \in ClkSeqs(3) }]
MCSpec == ISpecP(IF Part = "nc" THEN InFam(NcFam)
                 ELSE (InFam(CheckerFam) \/ InFam(NoKeyFam) \/ InFam(BuilderFam) \/ script \in BuilderNoKey \/ InFam(ClaimFam) \/ InFam(LifeFam) \/ InFam(EcFam) \/ InFam(ClkFam) \/ InFam(MemoFam) \/ script \in SizeScripts))

\* ---- on the specification: the configuration a verdict is computed from is
\* exactly what the configuration calls made it; verify, generate and
\* error_clear touch nothing but the error state.
RECURSIVE CfgC(_, _, _, _)
CfgC(s, n, ck, rs) ==
  IF n = 0 THEN ck
  ELSE LET prev == CfgC(s, n - 1, ck, rs) op == s[n] IN
       CASE op.op = "CSetKey" -> LET key == ItemAt(rs, op.ring, op.key) IN
                                  IF RefSetKeyRet("checker", op.alg, key) = 0 THEN [prev EXCEPT !.alg = op.alg, !.key = key] ELSE prev
         [] op.op = "CSetCb" -> IF "ctxonly" \in DOMAIN op THEN prev
                                ELSE IF "prog" \in DOMAIN op THEN [prev EXCEPT !.cb = op.prog, !.hascb = TRUE]
                                ELSE [prev EXCEPT !.cb = <<>>, !.hascb = FALSE]
         [] op.op = "CClaimSet" -> CkAfterClaimSet(prev, op.claim, op.val, ClaimSetRet(op.claim, op.val))
         [] op.op = "CClaimDel" -> CkAfterClaimDel(prev, op.claim, 0)
         [] OTHER -> prev
StripErr(o) == [o EXCEPT !.err = 0, !.msg = 0]
ConfigOnlyFromConfigCalls ==
  (pc > 3 /\ checkers[0].live) => StripErr(checkers[0]) = CfgC(script, pc - 1, NewChecker, rings)
=============================================================================
