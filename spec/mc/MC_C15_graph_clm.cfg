SPECIFICATION MCSpec
CONSTANTS Mode = "graph" MaxLen = 6 Which = "clm"
VIEW View
INVARIANT Emit
PROPERTY RefusedSetNoChange ReadYourWrite DeleteExact GetPure MergeRule
CHECK_DEADLOCK FALSE
