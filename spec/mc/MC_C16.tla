------------------------------ MODULE MC_C16 ------------------------------
(* C16: a keyring is an ordered list under every sequence of operations.   *)
(* TLC enumerates all sequences of mutators up to MaxLen over the alphabet *)
(* below, checks the list invariants on the reference model and prints     *)
(* each maximal sequence - with a full read-back after every mutator - as  *)
(* a script for the driver.                                                *)
EXTENDS LibJWT, Json
CONSTANT MaxLen
VARIABLES hist
mvars == <<vars, hist>>

K1   == OctKey(32, "a", "HS256", "k1")
K1b  == OctKey(32, "b", "HS256", "k1")      \* duplicate kid, other material
K2   == OctKey(48, "a", "HS384", "k2")
NoKid == OctKey(32, "a", NONE, NONE)
Bad  == WithDefect(OctKey(32, "a", "HS256", "kbad"), "k", "absent")
Bad2 == WithDefect(OctKey(32, "b", NONE, NONE), "k", "number")

BadEcLong == WithDefect(AsymKey("p256a", 1, NONE, "kec"), "d", "long")
\* keys that own provider-side objects (removal has to release them, under whichever provider is current)
KRsa == AsymKey("rsa2048a", 0, "RS256", "k2")
KEd  == AsymKey("ed25519a", 1, NONE, NONE)
Loads == { [doc |-> "keys", keys |-> <<K1>>], [doc |-> "single", keys |-> <<K1b>>],
           [doc |-> "keys", keys |-> <<KEd>>], [doc |-> "single", keys |-> <<Bad>>],
           [doc |-> "keys", keys |-> <<KRsa, Bad2, K1>>], [doc |-> "nonjson", keys |-> <<>>],
           [doc |-> "keys", keys |-> <<>>],
           \* an errored item that got as far as a provider-side key object before it failed (EC private key whose d is
           \* too long): removal has to release whatever the import left behind, once
           [doc |-> "keys", keys |-> <<BadEcLong, K2>>] }

\* the read-back starts and ends with a get at index 2 and is not ascending: an implementation that remembers where
\* the previous get stopped is asked for the same or a higher index right after the list has changed underneath
Readback == <<[op |-> "ItemGet", ring |-> 0, index |-> 2], [op |-> "ItemGet", ring |-> 0, index |-> 3],
              [op |-> "ItemGet", ring |-> 0, index |-> 1], [op |-> "ItemGet", ring |-> 0, index |-> 0],
              [op |-> "ItemGet", ring |-> 0, index |-> 7],
              [op |-> "ItemGet", ring |-> 0, index |-> 0, hi |-> 1], [op |-> "ItemGet", ring |-> 0, index |-> 1, hi |-> 5],
              [op |-> "Count", ring |-> 0], [op |-> "Find", ring |-> 0, kid |-> "k1"],
              [op |-> "Find", ring |-> 0, kid |-> "k2"], [op |-> "Find", ring |-> 0, kid |-> "k"], [op |-> "Find", ring |-> 0, kid |-> "kbad"],
              [op |-> "Find", ring |-> 0, kid |-> "k1x"], [op |-> "Find", ring |-> 0, kid |-> "K1"], [op |-> "Find", ring |-> 0, kid |-> ""],
              [op |-> "ErrAny", ring |-> 0], [op |-> "ItemGet", ring |-> 0, index |-> 1], [op |-> "ItemGet", ring |-> 0, index |-> 2]>>

Rec(op) == hist' = hist \o <<op>> \o Readback

DoLoad(ld) ==
  LET kds == ld.keys
      n == DocItemCount(ld.doc, Len(kds))
      via == IF rings[0].live THEN "load" ELSE "create"
  IN /\ Load(0, RefItems(kds, nextId), IF ld.doc = "nonjson" THEN 1 ELSE IF rings[0].err THEN 1 ELSE 0)
     /\ Rec(IF ld.doc = "nonjson"
            THEN [op |-> "Load", ring |-> 0, via |-> via, doc |-> "nonjson", keys |-> <<>>, text |-> "{\"keys\": [ this is not json"]
            ELSE [op |-> "Load", ring |-> 0, via |-> via, doc |-> ld.doc, keys |-> kds])

DoFree(idx) == rings[0].live /\ ItemFree(0, idx, 0) /\ Rec([op |-> "ItemFree", ring |-> 0, index |-> idx])
\* an index of 2^32 * hi + idx is out of range whatever idx is
DoFreeHuge(idx) == rings[0].live /\ ItemFree(0, 1000000, 0) /\ Rec([op |-> "ItemFree", ring |-> 0, index |-> idx, hi |-> 1])
DoFreeBad == rings[0].live /\ FreeBad(0) /\ Rec([op |-> "FreeBad", ring |-> 0])
DoFreeAll == rings[0].live /\ FreeAll(0) /\ Rec([op |-> "FreeAll", ring |-> 0])

NMut == Len(hist) \div (Len(Readback) + 1)
MCInit == Init /\ hist = <<>>
MCNext ==
  /\ NMut < MaxLen
  /\ \/ \E ld \in Loads : DoLoad(ld)
     \/ \E idx \in {0, 1, Len(rings[0].items) - 1, Len(rings[0].items)} : idx >= 0 /\ DoFree(idx)
     \/ DoFreeBad
     \/ DoFreeAll
     \/ DoFreeHuge(0)
MCSpec == MCInit /\ [][MCNext]_mvars

\* ---- the property on the reference model
Items == rings[0].items
\* ids strictly increase along the list: loads append, removals keep order
Ordered == \A i, j \in DOMAIN Items : i < j => Items[i].id < Items[j].id
\* what the list operations must do, as an action property
ListSteps ==
  [][ LET old == Items new == Items' IN
      \/ (Len(new) >= Len(old) /\ SubSeq(new, 1, Len(old)) = old)                      \* append
      \/ \E i \in DOMAIN old : new = SeqRemoveAt(old, i)                              \* remove one
      \/ new = GoodOnly(old) \/ new = <<>> \/ new = old ]_vars
NoBadAfterFreeBad == [][ (\E op \in {"FreeBad"} : Len(hist') > Len(hist) /\ hist'[Len(hist) + 1].op = op) => BadCount(Items') = 0 ]_mvars

Emit == (NMut = MaxLen) => PrintT(<<"SCRIPT", ToJson(hist)>>)
=============================================================================
