SPECIFICATION MCSpec
CONSTANTS Tier = "thorough"
INVARIANT RefVerifyOK RefGenerateOK RefSetKeyOK Emit
CHECK_DEADLOCK FALSE
