SPECIFICATION MCSpec
CONSTANT MaxLen = 5
INVARIANT Ordered
INVARIANT Emit
PROPERTY ListSteps
PROPERTY NoBadAfterFreeBad
CHECK_DEADLOCK FALSE
