SPECIFICATION MCSpec
CONSTANTS Tier = "quick" MaxLen = 4 Part = "nc"
INVARIANT RefVerifyOK RefGenerateOK RefSetKeyOK ConfigOnlyFromConfigCalls Emit
CHECK_DEADLOCK FALSE
