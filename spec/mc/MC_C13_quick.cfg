SPECIFICATION MCSpec
CONSTANTS Tier = "quick" MaxLen = 4 Part = "main"
INVARIANT RefVerifyOK RefGenerateOK RefSetKeyOK ConfigOnlyFromConfigCalls Emit
CHECK_DEADLOCK FALSE
