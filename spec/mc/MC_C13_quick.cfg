SPECIFICATION MCSpec
CONSTANTS Tier = "quick" MaxLen = 4
INVARIANT RefVerifyOK RefGenerateOK RefSetKeyOK ConfigOnlyFromConfigCalls Emit
CHECK_DEADLOCK FALSE
