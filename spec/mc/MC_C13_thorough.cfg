SPECIFICATION MCSpec
CONSTANTS Tier = "thorough" MaxLen = 5
INVARIANT RefVerifyOK RefGenerateOK RefSetKeyOK ConfigOnlyFromConfigCalls Emit
CHECK_DEADLOCK FALSE
