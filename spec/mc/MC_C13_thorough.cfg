SPECIFICATION MCSpec
CONSTANTS Tier = "thorough" MaxLen = 5 Part = "main"
INVARIANT RefVerifyOK RefGenerateOK RefSetKeyOK ConfigOnlyFromConfigCalls Emit
CHECK_DEADLOCK FALSE
