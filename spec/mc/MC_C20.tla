------------------------------ MODULE MC_C20 ------------------------------
(* C20: command-line tools mirror the library.                             *)
(* The jwt-verify machine of Tools.tla is explored for token lists of      *)
(* every length (good^g bad^b in three orders); TLC checks that its exit   *)
(* status is zero iff every token verified and prints the cells the tool   *)
(* runner executes: exit-status cells, generate/verify round trips in both *)
(* option spellings, and key conversions for every fixture key.            *)
EXTENDS Tools, JwtTypes, Json, TLC
CONSTANT Tier
Quick == Tier = "quick"

Goods == {0, 1, 3}
\* long lists of good tokens (per-token resources must be given back: 600 is past half the usual
\* descriptor limit of 1024)
ManyGood == 600
Bads == IF Quick THEN {0, 1, 2, 255, 256, 257, 512} ELSE 0..520
ListOf(g, b, order) ==
  CASE order = "gb" -> [i \in 1..(g + b) |-> i <= g]
    [] order = "bg" -> [i \in 1..(g + b) |-> i > b]
    [] OTHER -> [i \in 1..(g + b) |-> IF i <= 2 * (IF g < b THEN g ELSE b) THEN i % 2 = 0 ELSE (g > b)]
TokenLists == { ListOf(g, b, o) : g \in Goods, b \in Bads, o \in {"gb", "bg", "alt"} }
              \cup { ListOf(ManyGood, b, "gb") : b \in {0, 1} }
MCSpec == VSpec(TokenLists)

\* ---- cells for the tool runner
KOct == OctKey(48, "a", "HS384", NONE)
KOctNoAlg == OctKey(32, "a", NONE, NONE)
\* out: what the tool is asked to print - "q" quiet, "plain" neither -q nor -v, "v" verbose,
\* "vp" verbose through a --print command.  The exit status does not depend on it.
OutCells ==
  { [op |-> "ToolVerify", key |-> KOct, alg |-> NONE, good |-> g, bad |-> b, mode |-> m, order |-> "gb", out |-> o] :
      g \in {1, 3, ManyGood}, b \in {0, 2}, m \in {"argv", "stdin"}, o \in {"plain", "v", "vp"} }
VerifyCells ==
  { [op |-> "ToolVerify", key |-> KOct, alg |-> NONE, good |-> g, bad |-> b, mode |-> m, order |-> o, out |-> "q"] :
      g \in Goods, b \in (IF Quick THEN Bads ELSE {0, 1, 2, 3, 254, 255, 256, 257, 258, 511, 512, 513, 520} \cup {x \in 0..520 : x % 7 = 0}),
      m \in {"argv", "stdin", "stdin-nonl"}, o \in {"gb", "alt"} } \ { c \in { [op |-> "ToolVerify", key |-> KOct, alg |-> NONE, good |-> 0, bad |-> 0, mode |-> m, order |-> o, out |-> "q"] : m \in {"argv", "stdin", "stdin-nonl"}, o \in {"gb", "alt"} } : TRUE }
\* failing lines that BEGIN with a good token: the token followed by white space and more text (a line is a token, not
\* its first word), by a second token, by a CR
TailCells ==
  { [op |-> "ToolVerify", key |-> KOct, alg |-> NONE, good |-> g, bad |-> b, mode |-> m, order |-> o, out |-> "q", badkind |-> bk] :
      g \in {0, 2}, b \in {1, 3}, m \in {"argv", "stdin", "stdin-nonl"}, o \in {"gb", "alt"}, bk \in {"space", "tab", "cr", "two", "lead"} }
RtKeys == { <<OctKey(32, "a", NONE, NONE), "HS256">>, <<OctKey(64, "a", "HS512", NONE), NONE>>,
            <<AsymKey("rsa2048a", 1, NONE, NONE), "RS256">>, <<AsymKey("rsa2048a", 1, "PS256", NONE), NONE>>,
            <<AsymKey("p256a", 1, NONE, NONE), "ES256">>, <<AsymKey("p384a", 1, "ES384", NONE), NONE>>,
            <<AsymKey("p521a", 1, NONE, NONE), "ES512">>, <<AsymKey("k256a", 1, NONE, NONE), "ES256K">>,
            <<AsymKey("ed25519a", 1, "EdDSA", NONE), NONE>>, <<AsymKey("ed448a", 1, NONE, NONE), "EdDSA">> }
RoundTripCells ==
  { [op |-> "ToolRoundTrip", key |-> ka[1], alg |-> ka[2], gopts |-> go, vopts |-> vo, json |-> j, noiat |-> n, far |-> 0] :
      ka \in RtKeys, go \in {"short", "long"}, vo \in {"short", "long"}, j \in {0, 1}, n \in {0, 1} }
  \* integer claims beyond 32 bits on the command line: an expiry in 2100, a not-before in 1840, 2^53 + 1
  \cup { [op |-> "ToolRoundTrip", key |-> ka[1], alg |-> ka[2], gopts |-> go, vopts |-> "short", json |-> 0, noiat |-> n, far |-> 1] :
      ka \in RtKeys, go \in {"short", "long"}, n \in {0, 1} }
\* key2jwk names JOSE curves only (P-256/384/521, secp256k1): other curves are outside its documented scope
ConvBases == { b \in DOMAIN AsymBase : AsymBase[b].kty # "EC" \/ AsymBase[b].crv \in {"P-256", "P-384", "P-521", "secp256k1"} }
KeyConvCells ==
  { [op |-> "ToolKeyConv", key |-> AsymKey(b, p, NONE, NONE)] : b \in ConvBases \cup DOMAIN ExtraBase, p \in {0, 1} }
  \cup { [op |-> "ToolKeyConv", key |-> OctKey(n, v, NONE, NONE)] : n \in {32, 33, 47, 48, 64, 100, 512}, v \in {"a", "b"} }
  \* raw key files whose last / first octet is a newline, CR, NUL, space, '=' or 0xff: every octet is key material
  \cup { [op |-> "ToolKeyConv", key |-> OctKey(n, v, NONE, NONE)] : n \in {32, 48, 65},
           v \in {"a.end0a", "a.end0d", "a.end00", "a.end20", "a.end3d", "a.endff", "a.beg00", "a.beg0a", "a.beg20"} }
\* several files in one invocation, every order of four key types (and a repeated type)
MK == << OctKey(48, "a", NONE, NONE), AsymKey("rsa2048a", 1, NONE, NONE), AsymKey("p256zx", 0, NONE, NONE), AsymKey("ed25519a", 1, NONE, NONE) >>
Perms4 == { p \in [1..4 -> 1..4] : \A i, j \in 1..4 : i # j => p[i] # p[j] }
MultiCells ==
  { [op |-> "ToolKeyConvMulti", keys |-> [i \in 1..4 |-> MK[p[i]]]] : p \in Perms4 }
  \cup { [op |-> "ToolKeyConvMulti", keys |-> <<MK[a], MK[b]>>] : a \in 1..4, b \in 1..4 }
  \cup { [op |-> "ToolKeyConvMulti", keys |-> <<OctKey(32, "a", NONE, NONE), OctKey(64, "b", NONE, NONE), AsymKey("p384a", 1, NONE, NONE), OctKey(100, "a", NONE, NONE)>>] }
Cells == VerifyCells \cup TailCells \cup OutCells \cup RoundTripCells \cup KeyConvCells \cup MultiCells

Emit == (pos = 1 /\ status = Running /\ vtoks = ListOf(0, 0, "gb")) =>
          \A c \in Cells : PrintT(<<"SCRIPT", ToJson(<<c>>)>>)
=============================================================================
