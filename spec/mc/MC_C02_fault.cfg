SPECIFICATION MCSpecFault
CONSTANT Tier = "quick"
INVARIANT RefSatisfiesC02 TableIsTheDocumentedOne Emit
CHECK_DEADLOCK FALSE
