SPECIFICATION MCSpec
CONSTANTS Tier = "thorough"
INVARIANT RefVerifyOK RefGenerateOK RefSetKeyOK Emit
PROPERTY SwitchOnlyExact
CHECK_DEADLOCK FALSE
