------------------------------- MODULE Cells -------------------------------
(* Helpers shared by the bounded instances: script operation constructors  *)
(* (the driver's vocabulary), token descriptors, and reference states      *)
(* built directly from a cell description.                                 *)
EXTENDS LibJWT, Json

\* ------------------------------------------------------------ operations
LoadOp(kds) == [op |-> "Load", ring |-> 0, via |-> "create", doc |-> "keys", keys |-> kds]
LoadOpR(r, kds) == [op |-> "Load", ring |-> r, via |-> "create", doc |-> "keys", keys |-> kds]
CNewOp == [op |-> "CNew", c |-> 0]
BNewOp == [op |-> "BNew", b |-> 0]
CSetKeyOp(alg, idx) == [op |-> "CSetKey", c |-> 0, alg |-> alg, ring |-> 0, key |-> idx]
BSetKeyOp(alg, idx) == [op |-> "BSetKey", b |-> 0, alg |-> alg, ring |-> 0, key |-> idx]
CSetCbOp(prog) == [op |-> "CSetCb", c |-> 0, prog |-> prog]
BSetCbOp(prog) == [op |-> "BSetCb", b |-> 0, prog |-> prog]
\* setcb(NULL, NULL): callback off;  setcb(NULL, ctx): context only
CSetCbOff == [op |-> "CSetCb", c |-> 0]
BSetCbOff == [op |-> "BSetCb", b |-> 0]
CSetCbCtxOp == [op |-> "CSetCb", c |-> 0, ctxonly |-> 1]
BSetCbCtxOp == [op |-> "BSetCb", b |-> 0, ctxonly |-> 1]
ClockOp(t) == [op |-> "Clock", now |-> t]
OpsOp(name) == [op |-> "Ops", name |-> name]
VerifyOp(tok) == [op |-> "Verify", c |-> 0, tok |-> tok]
VerifyOpX(tok, twin, nocb) == [op |-> "Verify", c |-> 0, tok |-> tok, twin |-> twin, nocb |-> nocb]
GenerateOp(slot) == [op |-> "Generate", b |-> 0, slot |-> slot]
CLeewayOp(claim, secs) == [op |-> "CLeeway", c |-> 0, claim |-> claim, secs |-> secs]
CClaimSetOp(claim, v) == [op |-> "CClaimSet", c |-> 0, claim |-> claim, val |-> v]
CClaimDelOp(claim) == [op |-> "CClaimDel", c |-> 0, claim |-> claim]
ForgeOp(slot, tok) == [op |-> "Forge", slot |-> slot, tok |-> tok]
SlotTok(slot) == [src |-> "slot", slot |-> slot]
CbKey(idx) == [k |-> "key", ring |-> 0, key |-> idx]
CbAlg(a) == [k |-> "alg", alg |-> a]
CbRet(r) == [k |-> "ret", ret |-> r]

\* ---------------------------------------------------------------- tokens
Sig(cls, alg, key) == [cls |-> cls, alg |-> alg, key |-> key, over |-> "self"]
Tok(halg, hm, pm, sig) ==
  [src |-> "forge", shape |-> "3seg", alter |-> "none",
   hdr |-> [cls |-> "obj", alg |-> halg, m |-> hm], pay |-> [cls |-> "obj", m |-> pm], sig |-> sig]
DummyKey == OctKey(32, "a", NONE, NONE)
EmptySig == Sig("empty", "none", DummyKey)
IntM(name, w) == <<name, "int", "", w>>
StrM(name, s) == <<name, "str", s, W0>>

\* ----------------------------------------------------- reference states
RingsOf(kds) == [r \in RingIds |-> IF r = 0 THEN [live |-> TRUE, items |-> RefItems(kds, 0), err |-> FALSE] ELSE NoRing]
ItemOf(kds, idx) == IF idx < 0 THEN NoItem ELSE RefItems(kds, 0)[idx + 1]
\* checker after setkey(alg, item) on a fresh checker, per the reference
CheckerWith(alg, item) ==
  IF AdmitDefined(alg, item) /\ Admit("checker", alg, item)
  THEN [NewChecker EXCEPT !.alg = alg, !.key = item] ELSE NewChecker
BuilderWith(alg, item) ==
  IF AdmitDefined(alg, item) /\ Admit("builder", alg, item)
  THEN [NewBuilder EXCEPT !.alg = alg, !.key = item] ELSE NewBuilder
WithCb(o, prog) == [o EXCEPT !.cb = prog, !.hascb = TRUE]
RetOf(ref) == IF ref = "accept" THEN 0 ELSE 1
T0 == <<BIAS, 405, 1306880>>     \* 1 700 000 000
=============================================================================
