SPECIFICATION MCSpec
CONSTANTS Tier = "thorough"
INVARIANT ExitZeroIffAllVerified CounterExact Emit
CHECK_DEADLOCK FALSE
