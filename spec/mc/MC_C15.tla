------------------------------ MODULE MC_C15 ------------------------------
(* C15: header/claim set/get/delete behave as a typed map.                 *)
(* Mode "graph": TLC explores the map's state graph (VIEW hides the path), *)
(* and for every reachable map state prints one script per operation of    *)
(* the alphabet: the shortest path to the state followed by the operation  *)
(* (one implementation test per transition).  Mode "seq": all sequences up *)
(* to MaxLen over a reduced alphabet.                                      *)
EXTENDS LibJWT, Json
CONSTANTS Mode, MaxLen, Which
VARIABLES hist
mvars == <<vars, hist>>

ObjText == "{\"a\":1,\"c\":\"z\"}"
WsObjText == " \n\t{ \"a\" : 1 ,\r\n  \"c\" : \"z\" }\n"
ObjM == << <<"a", "int", "", WOf(1)>>, <<"c", "str", "z", W0>> >>
\* an object carrying members of the JSON types the scalar setters cannot create
ObjText2 == "{\"r\":1.5,\"n\":null,\"o\":{\"x\":1},\"l\":[true]}"
ObjM2 == << <<"l", "arr", "[true]", W0>>, <<"n", "null", "null", W0>>, <<"o", "obj", "{\"x\":1}", W0>>, <<"r", "real", "1.5", W0>> >>
\* an object whose member "o" is again an object, with other keys than ObjText2's: a whole-object set with
\* replace overwrites the stored "o", it does not merge into it
ObjText3 == "{\"o\":{\"y\":2}}"
ObjM3 == << <<"o", "obj", "{\"y\":2}", W0>> >>
V(t, name, val, replace, jcls, jm, jcanon) ==
  [t |-> t, name |-> name, val |-> val, replace |-> replace, jcls |-> jcls, jm |-> jm, jcanon |-> jcanon]

Names == {"a", "b", "", NONE}
Scalars == { V("int", n, WOf(5), r, NONE, <<>>, NONE) : n \in Names, r \in {0, 1} }
      \cup { V("str", n, "x", r, NONE, <<>>, NONE) : n \in Names, r \in {0, 1} }
      \cup { V("str", n, NONE, r, NONE, <<>>, NONE) : n \in Names, r \in {0, 1} }

      \cup { V("bool", n, 1, r, NONE, <<>>, NONE) : n \in Names, r \in {0, 1} }
\* names that a whole-object merge may have filled with null, an object, an array, a real: a named set without
\* replace on them is EXIST like on any other existing name
OnMerged == { V("int", n, WOf(5), r, NONE, <<>>, NONE) : n \in {"n", "o"}, r \in {0, 1} } \cup { V("str", "n", "x", 0, NONE, <<>>, NONE), V("bool", "l", 1, 0, NONE, <<>>, NONE) }
Jsons == { V("json", n, ObjText, r, "obj", ObjM, ObjText) : n \in Names, r \in {0, 1} }
    \cup { V("json", n, "[1,2]", r, "arr", <<>>, "[1,2]") : n \in Names, r \in {0, 1} }
    \cup { V("json", n, "{\"a\":", r, "malformed", <<>>, NONE) : n \in Names, r \in {0, 1} }
    \cup { V("json", n, "7", r, "scalar", <<>>, NONE) : n \in Names, r \in {0, 1} }
    \cup { V("json", n, "{\"a\":1,\"a\":2}", r, "malformed", <<>>, NONE) : n \in {"b", NONE}, r \in {0, 1} }
    \cup { V("json", n, NONE, r, "null", <<>>, NONE) : n \in {"a", NONE}, r \in {0} }
    \cup { V("json", NONE, ObjText2, r, "obj", ObjM2, ObjText2) : r \in {0, 1} }
    \cup { V("json", NONE, ObjText3, r, "obj", ObjM3, ObjText3) : r \in {0, 1} }
Gets == { V(t, n, IF t = "int" THEN W0 ELSE NONE, 0, NONE, <<>>, NONE) : t \in {"int", "str", "bool", "json"}, n \in Names \cup {"r", "n", "o", "l"} }
Dels == { V("int", n, W0, 0, NONE, <<>>, NONE) : n \in Names }

\* JSON text as a pretty-printer or a file reader hands it over: white space around every token
WsJsons == { V("json", n, WsObjText, r, "obj", ObjM, ObjText) : n \in {"a", NONE}, r \in {0, 1} }
      \cup { V("json", "b", "\n [ 1 , 2 ]\n", r, "arr", <<>>, "[1,2]") : r \in {0, 1} }
\* probes: tried in every reachable state (one implementation test each) but not used to reach further states -
\* the white-space texts lead where the compact ones lead, the sets on merged names would only multiply the states
\* text whose strings carry the escape \u0000: as built it is refused like malformed text (the C-string getters could
\* not hand such a value back); a set that TAKES it and a get that returns less than was stored breaks the map
NulJsons == { V("json", n, "{\"z\":\"ab\\u0000cd\",\"a\":1}", r, "malformed", <<>>, NONE) : n \in {NONE, ""}, r \in {0, 1} }
            \cup { V("json", "a", "{\"z\":\"\\u0000head\"}", r, "malformed", <<>>, NONE) : r \in {0, 1} }
Probes == {[k |-> "set", v |-> v] : v \in OnMerged \cup WsJsons \cup NulJsons}
FullAlphabet == {[k |-> "set", v |-> v] : v \in Scalars \cup Jsons}
           \cup {[k |-> "get", v |-> v] : v \in Gets} \cup {[k |-> "del", v |-> v] : v \in Dels}
SmallAlphabet == {[k |-> "set", v |-> v] : v \in
                    { V("int", "a", WOf(5), 0, NONE, <<>>, NONE), V("int", "a", WOf(5), 1, NONE, <<>>, NONE),
                      V("str", "a", "x", 1, NONE, <<>>, NONE), V("str", "b", "x", 0, NONE, <<>>, NONE),
                      V("str", "a", "", 1, NONE, <<>>, NONE), V("str", "b", "", 0, NONE, <<>>, NONE),     \* the empty string is a value
                      V("str", "a", "#hex:fffe", 1, NONE, <<>>, NONE), V("str", "b", "#hex:c0af", 0, NONE, <<>>, NONE),   \* not UTF-8
                      V("bool", "b", 1, 0, NONE, <<>>, NONE), V("str", "", "x", 0, NONE, <<>>, NONE),
                      V("json", "b", ObjText, 0, "obj", ObjM, ObjText), V("json", NONE, ObjText, 0, "obj", ObjM, ObjText),
                      V("json", NONE, ObjText, 1, "obj", ObjM, ObjText), V("json", "a", "{\"a\":", 1, "malformed", <<>>, NONE) }}
             \cup {[k |-> "get", v |-> v] : v \in { V("int", "a", W0, 0, NONE, <<>>, NONE), V("str", "a", NONE, 0, NONE, <<>>, NONE),
                                                   V("json", NONE, NONE, 0, NONE, <<>>, NONE), V("json", "b", NONE, 0, NONE, <<>>, NONE) }}
             \cup {[k |-> "del", v |-> v] : v \in { V("int", "a", W0, 0, NONE, <<>>, NONE), V("int", NONE, W0, 0, NONE, <<>>, NONE) }}

Alphabet == IF Mode = "graph" THEN FullAlphabet ELSE SmallAlphabet
OpRec(a) == [op |-> "BMap", b |-> 0, k |-> a.k, which |-> Which, v |-> a.v]

Map == IF Which = "hdr" THEN builders[0].hdr ELSE builders[0].clm

RealInit ==
  /\ now = <<BIAS, 405, 1306880>> /\ ops = "openssl"
  /\ rings = [r \in RingIds |-> NoRing]
  /\ builders = [b \in ObjIds |-> IF b = 0 THEN NewBuilder ELSE Dead]
  /\ checkers = [c \in ObjIds |-> Dead]
  /\ toks = [s \in SlotIds |-> NullG] /\ nextId = 0
  /\ hist = <<>>

Do(a) == /\ IF a.k = "set" THEN MSet(Map, a.v).err # ANY ELSE TRUE
         /\ IF a.k = "get" THEN MGet(Map, a.v).err # ANY ELSE TRUE
         /\ BMap(0, a.k, Which, a.v)
         /\ hist' = Append(hist, OpRec(a))
MCNext == Len(hist) < MaxLen /\ \E a \in Alphabet : Do(a)
MCSpec == RealInit /\ [][MCNext]_mvars

View == Map

\* ---- properties of the reference model (the map algebra implies C15)
LastOp == hist'[Len(hist')]
Stepped == Len(hist') = Len(hist) + 1
\* set without replace on an existing name, and every refused set, change nothing
\* (the refusals the statement names: empty or absent name, malformed / non-container JSON text, existing name
\* without replace - a string value that is not UTF-8 is the code's named deviation, see MSet)
RefusedSetNoChange ==
  [][ (Stepped /\ LastOp.k = "set" /\ MSet(Map, LastOp.v).err \in {"EXIST", "INVALID"}
       /\ ~(LastOp.v.t = "str" /\ LastOp.v.val \in BadUtf8Vals)) => Map' = Map ]_mvars
\* read-your-write: after a successful named scalar set, get returns it
ReadYourWrite ==
  [][ (Stepped /\ LastOp.k = "set" /\ LastOp.v.t \in {"int", "str", "bool"} /\ MSet(Map, LastOp.v).err = "NONE")
        => MGet(Map', [t |-> LastOp.v.t, name |-> LastOp.v.name]).got = MemberOf(LastOp.v) ]_mvars
\* delete removes exactly the name (or everything)
DeleteExact ==
  [][ (Stepped /\ LastOp.k = "del") =>
        IF NameBad(LastOp.v.name) THEN DOMAIN Map' = {}
        ELSE DOMAIN Map' = DOMAIN Map \ {LastOp.v.name} /\ \A n \in DOMAIN Map' : Map'[n] = Map[n] ]_mvars
\* get never changes the map
GetPure == [][ (Stepped /\ LastOp.k = "get") => Map' = Map ]_mvars
\* nameless object merge: missing-only without replace, all with replace
MergeRule ==
  [][ (Stepped /\ LastOp.k = "set" /\ LastOp.v.t = "json" /\ LastOp.v.jcls = "obj" /\ NameBad(LastOp.v.name)) =>
        LET jm == MapOfList(LastOp.v.jm) IN
        /\ DOMAIN Map' = DOMAIN Map \cup DOMAIN jm
        /\ \A n \in DOMAIN Map : (n \notin DOMAIN jm \/ LastOp.v.replace = 0) => Map'[n] = Map[n]
        /\ \A n \in DOMAIN jm : (n \notin DOMAIN Map \/ LastOp.v.replace # 0) => Map'[n] = jm[n] ]_mvars

Emit ==
  IF Mode = "graph"
  THEN \A a \in Alphabet \cup Probes : PrintT(<<"SCRIPT", ToJson(<<[op |-> "BNew", b |-> 0]>> \o hist \o <<OpRec(a)>>)>>)
  ELSE (Len(hist) = MaxLen) => PrintT(<<"SCRIPT", ToJson(<<[op |-> "BNew", b |-> 0]>> \o hist)>>)
=============================================================================
