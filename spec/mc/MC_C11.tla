------------------------------ MODULE MC_C11 ------------------------------
(* C11: base64url encoding and decoding are exact inverses and reject      *)
(* foreign bytes.  On the specification (Base64.tla) TLC checks, over all  *)
(* byte strings of length 1..3 on a byte set and over all character        *)
(* strings of length 1..5 on a class-representative alphabet, that Dec     *)
(* inverts Enc, that accepted text decodes canonically and that foreign    *)
(* bytes and lengths 1 mod 4 are rejected.  It also prints the batch       *)
(* descriptors the driver executes against jwt_base64uri_encode/_decode.   *)
EXTENDS Base64, Json, TLC, FiniteSets, Integers
CONSTANT Tier
Quick == Tier = "quick"
VARIABLES x
\* x = [k |-> "bytes", v |-> seq] | [k |-> "text", v |-> seq] | [k |-> "batch", v |-> descriptor]

Bytes == IF Quick THEN {0, 1, 3, 15, 16, 62, 63, 64, 127, 128, 251, 255} ELSE 0..255
Bytes3 == IF Quick THEN Bytes ELSE {0, 1, 2, 3, 4, 15, 16, 17, 31, 32, 47, 48, 62, 63, 64, 65, 95, 96, 127, 128, 129, 191, 192, 223, 224, 239, 240, 247, 248, 251, 252, 253, 254, 255}
\* A Z a z 0 9 - _ + / = . @ [ ` { : , space * 0x80 0xff 0x01 M
A24 == <<65, 90, 97, 122, 48, 57, 45, 95, 43, 47, 61, 46, 64, 91, 96, 123, 58, 44, 32, 42, 128, 255, 1, 77>>
A8 == <<65, 122, 57, 45, 47, 61, 46, 193>>
\* high-bit bytes whose low seven bits are alphabet characters or '=' (0xC1 'A', 0xE1 'a', 0xB0 '0', 0xAB '+', 0xAF '/', 0xAD '-', 0xDF '_', 0xBD '=')
HighTwins == <<193, 225, 176, 171, 175, 173, 223, 189>>
\* every byte value except NUL
AllBytes == [i \in 1..255 |-> i]
A32 == A24 \o HighTwins
A40 == A32 \o <<66, 89, 98, 121, 49, 56, 33, 34>>
Texts == UNION { [1..n -> {A32[i] : i \in 1..Len(A32)}] : n \in 1..3 }
         \cup [1..5 -> {A8[i] : i \in 1..Len(A8)}]

Batch(dir, len, prefix, alpha) == [op |-> "CodecBatch", dir |-> dir, len |-> len, prefix |-> prefix, alpha |-> alpha, suffix |-> <<>>]
BatchS(dir, len, prefix, alpha, suffix) == [op |-> "CodecBatch", dir |-> dir, len |-> len, prefix |-> prefix, alpha |-> alpha, suffix |-> suffix]
\* a valid text with ONE position ranging over every byte value
Valid8 == <<81, 85, 74, 68, 90, 71, 86, 109>>       \* "QUJDZGVm"
OnePos(n) == { BatchS("dec", n, SubSeq(Valid8, 1, i - 1), AllBytes, SubSeq(Valid8, i + 1, n)) : i \in 1..n }
EncBatches == { Batch("enc", 0, <<>>, <<>>), Batch("enc", 1, <<>>, <<>>) }
         \cup { Batch("enc", 2, <<h>>, <<>>) : h \in 0..255 }
         \cup { Batch("enc", 3, <<h>>, <<>>) : h \in (IF Quick THEN {0, 77, 251, 255} ELSE 0..255) }
         \cup { Batch("enc", 4, <<h, g>>, <<>>) : h \in {0, 255}, g \in {0, 128, 255} }
DecBatches == { Batch("dec", n, <<>>, A32) : n \in {0, 1, 2, 3} }
         \cup { Batch("dec", 4, <<A32[i]>>, A32) : i \in 1..Len(A32) }
         \cup UNION { OnePos(n) : n \in {2, 3, 4, 6, 7, 8} }
         \cup { Batch("dec", n, <<>>, A8) : n \in {5, 6} }
         \cup { Batch("dec", 7, <<A8[i]>>, A8) : i \in 1..Len(A8) }
         \cup { Batch("dec", 8, <<A8[i], A8[j]>>, A8) : i \in 1..Len(A8), j \in {1, 6} }
         \cup (IF Quick THEN {} ELSE { Batch("dec", 4, <<A40[i]>>, A40) : i \in 1..Len(A40) })

Init == \/ \E n \in 1..2 : \E v \in [1..n -> Bytes] : x = [k |-> "bytes", v |-> v]
        \/ \E v \in [1..3 -> Bytes3] : x = [k |-> "bytes", v |-> v]
        \/ \E v \in Texts : x = [k |-> "text", v |-> v]
        \/ \E d \in EncBatches \cup DecBatches : x = [k |-> "batch", v |-> d]
Next == UNCHANGED x
Spec == Init /\ [][Next]_x

\* decoding inverts encoding for every non-empty byte string
RoundTrip == x.k = "bytes" =>
  LET r == B64Dec(B64Enc(x.v)) IN r.ok /\ ~r.any /\ r.bytes = x.v
\* encoded text is unpadded, URL-safe and of the RFC length
EncShape == x.k = "bytes" =>
  LET e == B64Enc(x.v) IN /\ Len(e) = EncLen(Len(x.v))
                           /\ \A i \in 1..Len(e) : e[i] # Eq /\ e[i] # Plus /\ e[i] # Slash /\ InAlphabets(e[i])
\* foreign bytes ahead of any '=' and lengths 1 mod 4 are rejected, never partially decoded
Rejects == x.k = "text" =>
  LET r == B64Dec(x.v) IN
  /\ ((\E i \in 1..Len(x.v) : ~InAlphabets(x.v[i]) /\ \A j \in 1..i : x.v[j] # Eq) => ~r.ok)
  /\ (Len(x.v) % 4 = 1 => ~r.ok)
  /\ ((r.ok /\ ~r.any) => \A i \in 1..Len(x.v) : InAlphabets(x.v[i]))
\* what is accepted decodes to bytes whose encoding decodes to the same bytes (canonical form)
Canonical == x.k = "text" =>
  LET r == B64Dec(x.v) IN (r.ok /\ ~r.any) => B64Dec(B64Enc(r.bytes)).bytes = r.bytes /\ Len(B64Enc(r.bytes)) = Len(x.v)

Emit == x.k = "batch" => PrintT(<<"SCRIPT", ToJson(<<x.v>>)>>)
=============================================================================
