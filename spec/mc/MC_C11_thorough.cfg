SPECIFICATION Spec
CONSTANTS Tier = "thorough"
INVARIANT RoundTrip EncShape Rejects Canonical Emit
CHECK_DEADLOCK FALSE
