------------------------------ MODULE MC_C10 ------------------------------
(* C10: generated tokens are well-formed and say exactly what the builder  *)
(* was told.  All sequences up to MaxLen of builder configuration calls,   *)
(* with a generate after every call, at two clock values.                  *)
EXTENDS Interp
CONSTANTS Tier, MaxLen
Quick == Tier = "quick"

KOct == OctKey(32, "a", NONE, NONE)
KRsa == AsymKey("rsa2048a", 1, "RS256", NONE)
KRsaPub == AsymKey("rsa2048a", 0, "RS256", NONE)
KEc == AsymKey("p256a", 1, NONE, NONE)
Keys == <<KOct, KRsa, KRsaPub, KEc>>

Val(t, n, v, r) == [t |-> t, name |-> n, val |-> v, replace |-> r, jcls |-> NONE, jm |-> <<>>, jcanon |-> NONE]
BM(k, w, v) == [op |-> "BMap", b |-> 0, k |-> k, which |-> w, v |-> v, map |-> 0]
Off(c, n) == [op |-> "BOffset", b |-> 0, claim |-> c, secs |-> WOf(n)]
OffW(c, w) == [op |-> "BOffset", b |-> 0, claim |-> c, secs |-> w]
\* offsets that do not fit 32 bits: a century, and 2^32 + 5 (which a 32-bit cut turns into 5)
Century == WBig(752, 1643392)
Iat(e) == [op |-> "BIat", b |-> 0, enable |-> e]
Prog1 == << [k |-> "set", which |-> "clm", v |-> Val("int", "cbc", WOf(1), 0), map |-> 0],
            [k |-> "set", which |-> "hdr", v |-> Val("str", "cbh", "v", 0), map |-> 0] >>
Prog2 == << [k |-> "del", which |-> "clm", v |-> Val("int", NONE, W0, 0), map |-> 0],
            [k |-> "set", which |-> "hdr", v |-> Val("str", "typ", "cb", 1), map |-> 0] >>
\* JSON reals that need all 17 significant digits (written by the driver with %.17g on both sides)
RealsText == "{\"q\":1726000000.1234567,\"r\":0.30000000000000004}"
RealsM == << <<"q", "real", "1726000000.1234567", W0>>, <<"r", "real", "0.30000000000000004", W0>> >>
Reals(w) == BM("set", w, [t |-> "json", name |-> NONE, val |-> RealsText, replace |-> 1, jcls |-> "obj", jm |-> RealsM, jcanon |-> RealsText])
\* a member that is itself an object, set and then REPLACED by a whole-object set: the later object stands, it is not
\* merged into the earlier one
NestA == "{\"o\":{\"k\":\"old\",\"x\":1}}"
NestB == "{\"o\":{\"y\":2}}"
Nest(w, txt, inner, r) == BM("set", w, [t |-> "json", name |-> NONE, val |-> txt, replace |-> r, jcls |-> "obj", jm |-> << <<"o", "obj", inner, W0>> >>, jcanon |-> txt])
Core == { Reals("clm"), Nest("clm", NestA, "{\"k\":\"old\",\"x\":1}", 0), Nest("clm", NestB, "{\"y\":2}", 1), Nest("hdr", NestA, "{\"k\":\"old\",\"x\":1}", 1), Nest("hdr", NestB, "{\"y\":2}", 1), BM("set", "hdr", Val("str", "typ", "x", 0)), BM("set", "hdr", Val("str", "alg", "none", 1)),
          BM("set", "hdr", Val("int", "typ", WOf(7), 1)), BM("set", "hdr", Val("bool", "alg", 1, 1)),
          BM("set", "clm", Val("int", "iat", WOf(5), 1)), BM("set", "clm", Val("int", "exp", WOf(7), 0)),
          BM("set", "clm", Val("str", "sub", "s", 0)), BM("del", "clm", Val("int", "sub", W0, 0)),
          Iat(0), Iat(1), Iat(4), Iat(-1), Off("exp", 3600), OffW("exp", Century), OffW("nbf", WBig(1024, 5)), Off("exp", 0), Off("nbf", 60), Off("nbf", -5),
          BSetKeyOp("HS256", 0), BSetKeyOp("none", 1), BSetKeyOp("none", -1),
          BSetCbOp(Prog1), BSetCbOff, ClockOp(WAdd(T0, WOf(1000))) }
Extra == { Reals("hdr"), BM("set", "hdr", Val("str", "kid", "k", 0)), BM("del", "hdr", Val("int", "typ", W0, 0)), BM("del", "hdr", Val("int", NONE, W0, 0)),
           BM("set", "clm", Val("str", "nbf", "text", 0)), BM("set", "clm", Val("bool", "admin", 1, 0)),
           Off("exp", 1), Off("exp", -5), OffW("exp", W2p31), OffW("nbf", Century), OffW("iat", WBig(1024, 5)), Off("nbf", 0), Off("iat", 10),
           BSetKeyOp("RS256", 2), BSetKeyOp("ES256", 3), BSetKeyOp("HS256", 1),
           BSetCbOp(Prog2), [op |-> "BSetCb", b |-> 0], ClockOp(T0), ClockOp(W0) }
Alphabet == IF Quick THEN Core ELSE Core \cup Extra
G == GenerateOp(0)
RECURSIVE Seqs(_)
Seqs(n) == IF n = 0 THEN {<<>>} ELSE { <<a, G>> \o t : a \in Alphabet, t \in Seqs(n - 1) }
\* families by first operation (MaxLen >= 1): see ISpecP in Interp.tla
SeqFam == [a \in Alphabet |-> { <<LoadOp(Keys), BNewOp, G, a, G>> \o t : t \in Seqs(MaxLen - 1) }]
PairFam == [a \in Core \cup Extra |-> { <<LoadOp(Keys), BNewOp, a, b, G>> : b \in Core \cup Extra }]
MCSpec == ISpecP(script = <<LoadOp(Keys), BNewOp, G>> \/ InFam(SeqFam) \/ InFam(PairFam))

\* on the specification: generate leaves the builder's configuration alone
GenerateIsPure ==
  [][ (pc <= Len(script) /\ script[pc].op = "Generate") =>
        [builders'[0] EXCEPT !.err = 0, !.msg = 0] = [builders[0] EXCEPT !.err = 0, !.msg = 0] ]_ivars
=============================================================================
