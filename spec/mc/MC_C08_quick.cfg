SPECIFICATION MCSpec
CONSTANTS Tier = "quick"
INVARIANT Emit
CHECK_DEADLOCK FALSE
