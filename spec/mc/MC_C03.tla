------------------------------ MODULE MC_C03 ------------------------------
(* C03: unsigned tokens pass only when neither key nor algorithm is        *)
(* configured; a builder with a key never emits an unsigned token.         *)
EXTENDS Interp
CONSTANT Tier
Quick == Tier = "quick"

MatchAlg(k) == CASE k.kty = "oct" -> "HS256" [] k.kty = "RSA" -> "RS256"
                 [] k.kty = "EC" -> (IF k.bits = 256 THEN "ES256" ELSE IF k.bits = 384 THEN "ES384" ELSE "ES512")
                 [] k.kty = "OKP" -> "EdDSA"
BaseKeys == {OctKey(32, "a", NONE, NONE), AsymKey("rsa2048a", 0, NONE, NONE), AsymKey("p256a", 0, NONE, NONE)}
            \cup (IF Quick THEN {} ELSE {AsymKey("p384a", 0, NONE, NONE),
                                        AsymKey("ed25519a", 0, NONE, NONE), OctKey(64, "a", NONE, NONE)})
KeyVariants == {k : k \in BaseKeys} \cup {[k EXCEPT !.alg = MatchAlg(k)] : k \in BaseKeys}

Progs(k) == { <<>>, <<CbKey(0)>>, <<CbAlg(MatchAlg(k))>>, <<CbKey(0), CbAlg(MatchAlg(k))>>, <<CbKey(0), CbAlg("none")>> }

\* checker set-ups: (ops before the verify)
CkSetups(k) ==
  { <<LoadOp(<<k>>), CNewOp>> }                                                        \* key loaded, not set
  \cup { <<LoadOp(<<k>>), CNewOp, CSetKeyOp(a, 0)>> : a \in {"none", MatchAlg(k)} }
CkWithCb(k) == { s \o <<CSetCbOp(p)>> : s \in CkSetups(k), p \in Progs(k) } \cup CkSetups(k)

HdrAlgsFor(k) == {"none", "None", "NONE", MatchAlg(k), NONE, "#null", "#int", "#bool", "#arr", "#obj", "#real", "none ", "", "none#0x", "n"}
PadOnly(n) == [Sig("padonly", "none", DummyKey) EXCEPT !.cls = "padonly"] @@ [tn |-> n]      \* a third segment of '=' only: not empty
SigsFor(k, h) == { EmptySig, Sig("valid", h, k), [Sig("garbage", "HS256", DummyKey) EXCEPT !.cls = "garbage"], PadOnly(1), PadOnly(2), PadOnly(4) }
Shapes == {"3seg", "2seg", "4seg", "4segempty", "4segmid", "4segmidempty", "dupsig"}
TokFor(k, h, sg, sh) == [Tok(h, <<>>, <<>>, sg) EXCEPT !.shape = sh]

\* shapes other than 3 segments only with the plain spellings (the shape dimension is independent of the spelling)
ShapesFor(h) == IF h \in {"none", NONE} \/ h \in RealAlgs THEN Shapes ELSE {"3seg"}
KH == UNION { { <<k, h>> : h \in HdrAlgsFor(k) } : k \in KeyVariants }
CheckerFam ==
  [kh \in KH |-> { s \o <<VerifyOp(TokFor(kh[1], kh[2], sg, sh))>> : s \in CkWithCb(kh[1]), sg \in SigsFor(kh[1], kh[2]), sh \in ShapesFor(kh[2]) }]
NoKeyScripts ==
  { <<CNewOp, VerifyOp(TokFor(DummyKey, h, sg, sh))>> :
      h \in RealAlgs \cup {"none", "None", "NONE", NONE, "#null", "#int", "#bool", "#arr", "#obj", "#real", "none ", "", "nonee", "non", "none#0x", "none#0HS256", "n"},
      sg \in {EmptySig, Sig("valid", "HS256", DummyKey), PadOnly(1), PadOnly(2), PadOnly(3), PadOnly(4), PadOnly(8)}, sh \in Shapes }
  \cup { <<CNewOp, CSetKeyOp("HS256", -1), VerifyOp(TokFor(DummyKey, "none", EmptySig, "3seg"))>> }

\* builder
Priv(k) == [k EXCEPT !.priv = 1]
BdSetups(k) ==
  { <<LoadOp(<<Priv(k)>>), BNewOp>> }
  \cup { <<LoadOp(<<Priv(k)>>), BNewOp, BSetKeyOp(a, 0)>> : a \in {"none", MatchAlg(k)} }
BuilderScripts ==
  UNION { { s \o <<GenerateOp(0)>> : s \in BdSetups(k) } : k \in KeyVariants }
  \cup UNION { { s \o <<BSetCbOp(p), GenerateOp(0)>> : s \in BdSetups(k), p \in Progs(k) } : k \in KeyVariants }
  \cup { <<BNewOp, GenerateOp(0)>>, <<BNewOp, BSetCbOp(<<>>), GenerateOp(0)>>, <<BNewOp, BSetCbOp(<<CbAlg("none")>>), GenerateOp(0)>> }

\* the callback's life cycle: a key that arrives through the callback stays in force across a context-only
\* update, and goes away with the callback (setcb(NULL, NULL))
KeyProgs(k) == { <<CbKey(0)>>, <<CbKey(0), CbAlg(MatchAlg(k))>> }
CbLife(set, off, ctx) == { <<set, ctx>>, <<ctx>>, <<set, off>>, <<set, off, ctx>>, <<set, ctx, off>>, <<set, ctx, ctx>>, <<ctx, set, ctx>> }
KP == UNION { { <<k, p>> : p \in KeyProgs(k) } : k \in KeyVariants }
LifeFamB == [kp \in KP |-> { s \o l \o <<GenerateOp(0)>> : s \in BdSetups(kp[1]), l \in CbLife(BSetCbOp(kp[2]), BSetCbOff, BSetCbCtxOp) }]
LifeFamC == [kp \in KP |-> { s \o l \o <<VerifyOp(TokFor(kp[1], h, sg, "3seg"))>> :
                               s \in CkSetups(kp[1]), l \in CbLife(CSetCbOp(kp[2]), CSetCbOff, CSetCbCtxOp),
                               h \in {"none", MatchAlg(kp[1])}, sg \in {EmptySig, Sig("valid", MatchAlg(kp[1]), kp[1])} }]

\* (families, not their union: see ISpecFam in Interp.tla)

\* non-vacuity on the reference: some unsigned token is accepted, some signed one too
\* every algorithm pinned on a private key of every type that carries no alg attribute (what setkey admits is
\* not the point here: whatever generate returns from a keyed builder carries a signature), under both providers
CrossKeys == {OctKey(32, "a", NONE, NONE), OctKey(64, "a", NONE, NONE)}
             \cup {AsymKey(n, 1, NONE, NONE) : n \in {"rsa2048a", "rsa3072a", "p256a", "p384a", "p521a", "k256a", "ed25519a", "ed448a"}}
CrossFam == [k \in CrossKeys |->
               { <<OpsOp(p), LoadOp(<<k>>), BNewOp, BSetKeyOp(a, 0), GenerateOp(0)>> : a \in RealAlgs, p \in {"openssl", "gnutls"} }
               \cup { <<OpsOp(p), LoadOp(<<k>>), BNewOp, BSetCbOp(<<CbKey(0), CbAlg(a)>>), GenerateOp(0)>> : a \in RealAlgs, p \in {"openssl", "gnutls"} }]

SomeUnsignedAccepted == ~(obs.k = "Verify" /\ obs.ref = "accept" /\ obs.pt.sigEmpty)
\* stage 'faults': every allocation request made inside jwt_checker_verify fails once on keyed checkers (with and
\* without callback) that are handed unsigned and stripped tokens
FaultScripts ==
  UNION { { s \o <<VerifyOp(TokFor(k, "none", EmptySig, "3seg")), VerifyOp(TokFor(k, MatchAlg(k), EmptySig, "3seg")), VerifyOp(TokFor(k, "none", EmptySig, "2seg"))>> :
              s \in { <<LoadOp(<<k>>), CNewOp, CSetKeyOp(MatchAlg(k), 0)>>, <<LoadOp(<<k>>), CNewOp, CSetKeyOp(MatchAlg(k), 0), CSetCbOp(<<>>)>>,
                       <<LoadOp(<<k>>), CNewOp, CSetCbOp(<<CbKey(0), CbAlg(MatchAlg(k))>>)>> } }
          : k \in {OctKey(32, "a", NONE, NONE), AsymKey("rsa2048a", 0, NONE, NONE), AsymKey("p256a", 0, NONE, NONE)} }
MCSpecFault == ISpecP(script \in FaultScripts)
MCSpec == ISpecP(InFam(CheckerFam) \/ script \in NoKeyScripts \/ script \in BuilderScripts \/ InFam(LifeFamB) \/ InFam(LifeFamC) \/ InFam(CrossFam))
=============================================================================
