SPECIFICATION MCSpec
CONSTANTS Tier = "thorough"
INVARIANT Emit
CHECK_DEADLOCK FALSE
