SPECIFICATION MCSpec
CONSTANTS Tier = "quick"
INVARIANT Emit
PROPERTY LoadAppends
CHECK_DEADLOCK FALSE
