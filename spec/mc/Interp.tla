------------------------------- MODULE Interp -------------------------------
(* Generic bounded instance: a set of scripts (sequences of operations in  *)
(* the driver's vocabulary) is run through the actions of LibJWT.tla with  *)
(* the REFERENCE result of every operation.  TLC checks on every step that *)
(* the reference results satisfy the property clauses (the design implies  *)
(* the properties) and prints every script for the driver.  A bounded      *)
(* instance only has to say which scripts: MCSpec == ISpecWith(TheScripts). *)
EXTENDS Cells
VARIABLES script, pc, obs
ivars == <<vars, script, pc, obs>>

RefSetKeyRet(side, alg, key) == IF AdmitDefined(alg, key) /\ Admit(side, alg, key) THEN 0 ELSE 1

DummyBad == [base |-> "?", kty |-> NONE, bits |-> 0, crv |-> NONE, var |-> "a", priv |-> 0, alg |-> NONE, kid |-> NONE,
             use |-> NONE, ops |-> <<>>, defect |-> <<>>, bad |-> 1]
DocKds(op) == IF op.doc = "single" THEN SubSeq(op.keys, 1, 1)
              ELSE IF op.doc \in {"keys", "keysextra"} THEN op.keys
              ELSE IF op.doc \in {"nonjson", "anyraw", "allbad"} THEN <<>> ELSE <<DummyBad>>

IStep(op) ==
  CASE op.op = "Clock" -> Clock(op.now) /\ obs' = [k |-> "other"]
    [] op.op = "Ops" -> SetOps(op.name) /\ obs' = [k |-> "other"]
    [] op.op = "OpsT" -> SetOpsT(op.id) /\ obs' = [k |-> "other"]
    [] op.op = "OpsThread" -> (IF op.name = NONE THEN UNCHANGED vars ELSE SetOps(op.name)) /\ obs' = [k |-> "other"]
    [] op.op = "Load" ->
         /\ Load(op.ring, RefItems(DocKds(op), nextId),
                 IF op.doc = "nonjson" THEN 1 ELSE IF rings[op.ring].live /\ rings[op.ring].err THEN 1 ELSE 0)
         /\ obs' = [k |-> "other"]
    [] op.op = "ItemFree" -> ItemFree(op.ring, op.index, 0) /\ obs' = [k |-> "other"]
    [] op.op = "FreeBad" -> FreeBad(op.ring) /\ obs' = [k |-> "other"]
    [] op.op = "FreeAll" -> FreeAll(op.ring) /\ obs' = [k |-> "other"]
    [] op.op = "CNew" -> CNew(op.c) /\ obs' = [k |-> "other"]
    [] op.op = "BNew" -> BNew(op.b) /\ obs' = [k |-> "other"]
    [] op.op = "CSetKey" ->
         LET key == ItemAt(rings, op.ring, op.key) ret == RefSetKeyRet("checker", op.alg, key) IN
         CSetKey(op.c, op.alg, op.ring, op.key, ret) /\ obs' = [k |-> "SetKey", side |-> "checker", alg |-> op.alg, key |-> key, ret |-> ret]
    [] op.op = "BSetKey" ->
         LET key == ItemAt(rings, op.ring, op.key) ret == RefSetKeyRet("builder", op.alg, key) IN
         BSetKey(op.b, op.alg, op.ring, op.key, ret) /\ obs' = [k |-> "SetKey", side |-> "builder", alg |-> op.alg, key |-> key, ret |-> ret]
    [] op.op = "CLeeway" -> CLeeway(op.c, op.claim, op.secs, IF LeewayValid(op.claim) THEN 0 ELSE 1) /\ obs' = [k |-> "other"]
    [] op.op = "CClaimSet" -> CClaimSet(op.c, op.claim, op.val, ClaimSetRet(op.claim, op.val)) /\ obs' = [k |-> "other"]
    [] op.op = "CClaimDel" -> CClaimDel(op.c, op.claim, IF StrClaim(op.claim) THEN 0 ELSE 1) /\ obs' = [k |-> "other"]
    [] op.op = "CClaimGet" -> UNCHANGED vars /\ obs' = [k |-> "other"]
    [] op.op = "CSetCb" /\ "ctxonly" \in DOMAIN op -> CSetCbCtx(op.c, SetCbCtxRet(checkers[op.c])) /\ obs' = [k |-> "other"]
    [] op.op = "BSetCb" /\ "ctxonly" \in DOMAIN op -> BSetCbCtx(op.b, SetCbCtxRet(builders[op.b])) /\ obs' = [k |-> "other"]
    [] op.op = "CSetCb" -> CSetCb(op.c, IF "prog" \in DOMAIN op THEN op.prog ELSE <<>>, "prog" \in DOMAIN op, 0) /\ obs' = [k |-> "other"]
    [] op.op = "BSetCb" -> BSetCb(op.b, IF "prog" \in DOMAIN op THEN op.prog ELSE <<>>, "prog" \in DOMAIN op, 0) /\ obs' = [k |-> "other"]
    [] op.op = "BIat" -> BIat(op.b, op.enable) /\ obs' = [k |-> "other"]
    [] op.op = "BOffset" -> BOffset(op.b, op.claim, op.secs, IF op.claim \in {"exp", "nbf"} THEN 0 ELSE 1) /\ obs' = [k |-> "other"]
    [] op.op = "BMap" -> BMap(op.b, op.k, op.which, op.v) /\ obs' = [k |-> "other"]
    [] op.op = "Forge" -> Forge(op.slot, op.tok) /\ obs' = [k |-> "other"]
    [] op.op = "CErrClear" -> CErrClear(op.c) /\ obs' = [k |-> "other"]
    [] op.op = "BErrClear" -> BErrClear(op.b) /\ obs' = [k |-> "other"]
    [] op.op = "Verify" ->
         LET ck == checkers[op.c]
             pt == ParseTokIn(toks, op.tok)
             cb == VerifyCfg(ck, pt, rings)
             sok == SigOKIn(toks, op.tok, cb.cfg.key)
             ref == VerifyRef(ck, pt, cb, sok, now, ops)
             nocbck == [ck EXCEPT !.hascb = FALSE]
             nocb == VerifyCfg(nocbck, pt, rings)
             refnocb == VerifyRef(nocbck, pt, nocb, SigOKIn(toks, op.tok, nocb.cfg.key), now, ops)
             ret == RetOf(ref)
         IN /\ Verify(op.c, ret, ret)
            /\ obs' = [k |-> "Verify", ck |-> ck, pt |-> pt, cb |-> cb, sok |-> sok, ref |-> ref, ret |-> ret,
                       refnocb |-> refnocb, t |-> now, o |-> ops]
    [] op.op = "Generate" ->
         LET b == builders[op.b] g == GenRefG(b, now, rings, ops)
             e == IF g.ret = "tok" THEN 0 ELSE 1 IN
         /\ Generate(op.b, op.slot, IF g.ret = ANY THEN NullG ELSE g, e, e)
         /\ obs' = [k |-> "Generate", b |-> b, g |-> g, rs |-> rings, t |-> now, o |-> ops]
    [] OTHER -> UNCHANGED vars /\ obs' = [k |-> "other"]

IInitWith(S) == Init /\ script \in S /\ pc = 1 /\ obs = [k |-> "init"]
INext == pc <= Len(script) /\ IStep(script[pc]) /\ pc' = pc + 1 /\ UNCHANGED script
ISpecWith(S) == IInitWith(S) /\ [][INext]_ivars
\* The same for a family (sequence) of script sets.  TLC enumerates A \cup B by testing every element of B
\* for membership in A - linear in A while A is not normalised - so the union of big script sets costs
\* |A| * |B| deep comparisons (4.5 min for 36 k scripts); a disjunction in Init does not.
IInitFam(F) == Init /\ (\E i \in DOMAIN F : script \in F[i]) /\ pc = 1 /\ obs = [k |-> "init"]
ISpecFam(F) == IInitFam(F) /\ [][INext]_ivars
\* ... and for families indexed by anything (UNION { f(x) : x \in X } is quadratic in the same way: write
\* the family as the function [x \in X |-> f(x)] and say  MCSpec == ISpecP(InFam(F1) \/ InFam(F2) \/ script \in S)
InFam(F) == \E i \in DOMAIN F : script \in F[i]
ISpecP(P) == (Init /\ P /\ pc = 1 /\ obs = [k |-> "init"]) /\ [][INext]_ivars

\* ---- the reference satisfies every property clause stated on verify
RefVerifyOK ==
  obs.k = "Verify" =>
    \/ obs.ref = "any"
    \/ ItemBad(obs.cb.cfg.key)          \* (the reference says nothing about operations with a key whose import failed)
    \/ /\ P_C01(obs.pt, obs.cb, obs.sok, obs.ret)
       /\ P_C02(obs.pt, obs.cb, obs.ret)
       /\ P_C03(obs.pt, obs.cb, obs.ret)
       /\ P_C04(obs.ck, obs.pt, obs.cb, obs.sok, obs.t, obs.o, obs.ret)
       /\ P_C06(obs.pt, obs.ret)
       /\ P_C09(obs.ck, obs.pt, obs.cb, obs.sok, obs.t, obs.o, obs.ret)
       /\ (obs.refnocb # "any" => P_C19(obs.cb, obs.ret, RetOf(obs.refnocb)))
\* ... and on generate
RefGenerateOK ==
  obs.k = "Generate" =>
    \/ obs.g.ret = ANY
    \/ ItemBad(GenCb(obs.b, obs.t, obs.rs).cfg.key)
    \/ /\ P_C10(obs.b, obs.t, obs.rs, obs.o, obs.g, obs.b.hdr, obs.b.clm)
       /\ P_C03g(obs.b, obs.t, obs.rs, obs.g)
       /\ P_C02g(obs.b, obs.t, obs.rs, obs.g)
       /\ P_C09g(obs.b, obs.t, obs.rs, obs.o, obs.g)
       /\ P_GenSig(obs.b, obs.t, obs.rs, obs.o, obs.g)
\* ... and on setkey (C02: rows outside the table refuse)
RefSetKeyOK ==
  obs.k = "SetKey" => ((AdmitDefined(obs.alg, obs.key) /\ ~Admit(obs.side, obs.alg, obs.key)) => obs.ret # 0)

Done == pc = Len(script) + 1
Emit == Done => PrintT(<<"SCRIPT", ToJson(script)>>)
=============================================================================
