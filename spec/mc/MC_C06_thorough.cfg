SPECIFICATION MCSpec
CONSTANTS Tier = "thorough"
INVARIANT RefVerifyOK RefSetKeyOK Emit
CHECK_DEADLOCK FALSE
