SPECIFICATION MCSpec
CONSTANTS Tier = "thorough"
INVARIANT SameAsAlone Emit
PROPERTY SharedReadOnly
CHECK_DEADLOCK FALSE
