SPECIFICATION MCSpec
CONSTANTS Tier = "quick" MaxLen = 3
INVARIANT RefGenerateOK RefSetKeyOK Emit
PROPERTY GenerateIsPure
CHECK_DEADLOCK FALSE
