------------------------------ MODULE MC_C07 ------------------------------
(* C07: arbitrary JWK/JWKS input - no crash, and a well-formed keyring     *)
(* comes back.  Top-level document class x element kty x member defect     *)
(* class, deviating from a valid baseline in one member (quick) or any two *)
(* (thorough), through every entry point.                                  *)
EXTENDS Interp
CONSTANT Tier
Quick == Tier = "quick"

Baselines == { OctKey(32, "a", "HS256", "k-oct"), AsymKey("rsa2048a", 1, "RS256", "k-rsa"), AsymKey("rsa2048a", 0, NONE, "k-rsap"),
               AsymKey("rsa2048a", 0, "PS256", "k-pss"),
               AsymKey("p256a", 1, "ES256", "k-ec"), AsymKey("p384a", 0, NONE, "k-ecp"), AsymKey("p521a", 0, "ES512", NONE),
               AsymKey("ed25519a", 1, "EdDSA", "k-ed"), AsymKey("ed448a", 0, NONE, "k-edp"), AsymKey("k256a", 0, "ES256K", NONE) }
Common == {"kty", "alg", "use", "key_ops", "kid"}
Members(k) == Common \cup (CASE k.kty = "oct" -> {"k"}
                             [] k.kty = "RSA" -> {"n", "e"} \cup (IF k.priv = 1 THEN {"d", "p", "q", "dp", "dq", "qi"} ELSE {"d"})
                             [] k.kty = "EC" -> {"crv", "x", "y"} \cup (IF k.priv = 1 THEN {"d"} ELSE {"d"})
                             [] k.kty = "OKP" -> {"crv", "x", "d"})
Classes == {"absent", "null", "number", "real", "bool", "array", "object", "empty", "notb64", "len1mod4", "short", "long", "huge", "unknownstr", "unknownlong", "foreign", "utf8", "utf8b"}
Def1(k) == { [k EXCEPT !.defect = <<<<m, c>>>>, !.bad = 1] : m \in Members(k), c \in Classes }
Def2(k) == { [k EXCEPT !.defect = <<<<m1, c1>>, <<m2, c2>>>>, !.bad = 1] :
               m1 \in Members(k), m2 \in Members(k), c1 \in {"absent", "number", "empty", "notb64", "short", "null"}, c2 \in {"absent", "array", "empty", "long", "unknownstr"} }
Defects(k) == IF Quick THEN Def1(k) ELSE Def1(k) \cup { d \in Def2(k) : d.defect[1][1] # d.defect[2][1] }

Vias == <<"load", "load_strn", "create", "create_strn", "fromfile", "fromfp", "create_fromfile", "create_fromfp">>
L(via, doc, kds) == [op |-> "Load", ring |-> 0, via |-> via, doc |-> doc, keys |-> kds]
Good == OctKey(48, "b", "HS384", "good")
\* a defective key alone, as a single JWK, and between two good ones in a set
\* (a family indexed by baseline and first defective member: big unions are quadratic in TLC, see Interp.tla)
KM == UNION { { <<k, m>> : m \in Members(k) } : k \in Baselines }
DefsAt(k, m) == { d \in Defects(k) : d.defect[1][1] = m }
DefectFam == [km \in KM |->
                { <<L("create", "single", <<d>>)>> : d \in DefsAt(km[1], km[2]) }
                \cup { <<L("create_strn", "keys", <<Good, d, Good>>), L("load", "keys", <<d>>)>> : d \in DefsAt(km[1], km[2]) }]
\* entry points x document classes with well-formed content
Raw(obj) == [base |-> "rawobj", kty |-> NONE, bits |-> 0, crv |-> NONE, var |-> "a", priv |-> 0, alg |-> NONE, kid |-> NONE,
             use |-> NONE, ops |-> <<>>, defect |-> <<>>, bad |-> 1, obj |-> obj]
Mixed == << OctKey(32, "a", "HS256", "k1"), AsymKey("p256a", 0, NONE, "k2"), WithDefect(AsymKey("rsa2048a", 0, NONE, "k3"), "n", "absent"),
            AsymKey("ed25519a", 1, NONE, NONE) >>
T(via, cls, text) == [op |-> "Load", ring |-> 0, via |-> via, doc |-> cls, keys |-> <<>>, text |-> text]
NonJson == {"", " ", "{", "{\"keys\":[", "keys", "{\"kty\":\"oct\",\"k\":\"AAAA\"}}", "[1,2", "{'kty':'oct'}", "nul", "\"abc"}
JsonOther == {"1", "\"str\"", "null", "true", "[]", "[1,2,3]", "{}", "{\"a\":1}", "1.5", "[{\"kty\":\"oct\",\"k\":\"AAAA\"}]"}
HexJwkNulGarbage == "7b226b7479223a226f6374222c226b223a2241414543417751464267634943516f4c4441304f4478415245684d554652595847426b6147787764486838222c226b6964223a226e227d0067617262616765"
HexJwkNulJwk == "7b226b7479223a226f6374222c226b223a2241414543417751464267634943516f4c4441304f4478415245684d554652595847426b6147787764486838222c226b6964223a226e227d007b226b7479223a226f6374222c226b223a2241414543417751464267634943516f4c4441304f4478415245684d554652595847426b6147787764486838222c226b6964223a226e227d"
HexJwksNul == "7b226b657973223a5b7b226b7479223a226f6374222c226b223a2241414543417751464267634943516f4c4441304f4478415245684d554652595847426b6147787764486838222c226b6964223a226e227d2c7b226b7479223a226f6374222c226b223a2241414543417751464267634943516f4c4441304f4478415245684d554652595847426b6147787764486838222c226b6964223a226e227d5d7d00"
HexNulJwk == "007b226b7479223a226f6374222c226b223a2241414543417751464267634943516f4c4441304f4478415245684d554652595847426b6147787764486838222c226b6964223a226e227d"
HexJwkNulInside == "7b226b7479223a226f6374222c226b223a224141004543417751464267634943516f4c4441304f4478415245684d554652595847426b6147787764486838222c226b6964223a226e227d"
HexJwkSpaceNul == "7b226b7479223a226f6374222c226b223a2241414543417751464267634943516f4c4441304f4478415245684d554652595847426b6147787764486838222c226b6964223a226e227d200020"
\* byte strings with an embedded NUL are not JSON (length-taking and file entry points see all bytes)
H(via, hex) == [op |-> "Load", ring |-> 0, via |-> via, doc |-> "nonjson", keys |-> <<>>, hex |-> hex]
NulDocs == {HexJwkNulGarbage, HexJwkNulJwk, HexJwksNul, HexNulJwk, HexJwkNulInside, HexJwkSpaceNul}
NulScripts ==
  { <<H(v, x)>> : v \in {"create_strn", "create_fromfile", "create_fromfp"}, x \in NulDocs }
  \cup { <<L("create", "keys", <<Good>>), H(v, x), L("load", "keys", <<Good>>)>> : v \in {"load_strn", "fromfile", "fromfp"}, x \in NulDocs }
EntryScripts ==
  { <<L(Vias[i], doc, Mixed)>> : i \in {3, 4, 7, 8}, doc \in {"keys", "keysextra", "toparray"} }
  \cup { <<L("create", "keys", <<Good>>), L(Vias[i], doc, Mixed), L(Vias[i], "single", <<Good>>)>> : i \in {1, 2, 5, 6}, doc \in {"keys", "keysextra", "toparray"} }
  \cup { <<T(Vias[i], "nonjson", t)>> : i \in {3, 4, 7, 8}, t \in NonJson }
  \cup { <<L("create", "keys", <<Good>>), T(Vias[i], "nonjson", t), L("load", "keys", <<Good>>)>> : i \in {1, 2, 5, 6}, t \in NonJson }
  \cup { <<T(Vias[i], "jsonother", t)>> : i \in {3, 4, 7, 8}, t \in JsonOther }
  \cup { <<L("create", "keys", <<Good>>), T(Vias[i], "jsonother", t)>> : i \in {1, 2}, t \in JsonOther }
  \cup { <<L("create", "keys", <<Raw(1), Raw("x"), Good, Raw(<<>>), Raw([a |-> 1])>>)>>,
         <<L("create", "keys", <<>>)>>, <<T("create", "anyraw", "{\"keys\":{\"kty\":\"oct\"}}")>>, <<T("create", "anyraw", "{\"keys\":5}")>> }
\* (families, not their union: see ISpecFam in Interp.tla)
MCSpec == ISpecP(InFam(DefectFam) \/ script \in EntryScripts \/ script \in NulScripts)
\* on the specification: a load adds exactly one item per element / one for any other JSON
\* document / none for text that is not JSON, appended after what was there
LoadAppends ==
  [][ (pc <= Len(script) /\ script[pc].op = "Load" /\ script[pc].doc # "anyraw") =>
        LET old == IF rings[0].live THEN rings[0].items ELSE <<>> IN
        /\ Len(rings'[0].items) = Len(old) + DocItemCount(script[pc].doc, Len(script[pc].keys))
        /\ SubSeq(rings'[0].items, 1, Len(old)) = old
        /\ (script[pc].doc = "nonjson" => rings'[0].err) ]_ivars
=============================================================================
