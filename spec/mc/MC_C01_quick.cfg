SPECIFICATION MCSpec
CONSTANTS Tier = "quick" Reps = 2
INVARIANT RefVerifyOK RefSetKeyOK Emit
CHECK_DEADLOCK FALSE
