------------------------------ MODULE MC_C02 ------------------------------
(* C02: algorithm pinning.  A finite matrix, enumerated completely:        *)
(*  A. the setkey table: configured algorithm x key (absent / each key     *)
(*     type x alg attribute) through setkey and through a callback;        *)
(*  B. every admitted configuration x header alg spelling x signature      *)
(*     class (incl. HMAC under attacker-computable keys) x route;          *)
(*  C. builder: every configuration x route -> what generate may produce.  *)
(* Invariant: the reference outcome satisfies C02 on every cell; every     *)
(* cell is printed as a script.                                            *)
EXTENDS Cells
CONSTANT Tier
VARIABLES cell, done

Quick == Tier = "quick"
CfgAlgs == IF Quick THEN {"none", "HS256", "HS512", "RS256", "PS256", "ES256", "ES384", "EdDSA", "INVAL"} ELSE EnumAlgs
Bases == IF Quick THEN {"rsa2048a", "p256a", "p384a", "ed25519a"}
         ELSE {"rsa2048a", "rsa3072a", "p256a", "p384a", "p521a", "k256a", "ed25519a", "ed448a"}
OctLens == IF Quick THEN {32, 64} ELSE {32, 48, 64}
AttrFor(kty) == CASE kty = "oct" -> {NONE, "HS256", "HS512", "RS256", "bogus", "HS"}
                  [] kty = "RSA" -> {NONE, "RS256", "PS256", "HS256", "bogus", "RS"} \cup (IF Quick THEN {} ELSE {"RS512", "PS384", "ES256"})
                  [] kty = "EC" -> {NONE, "ES256", "ES384", "HS256", "bogus", "ES"} \cup (IF Quick THEN {} ELSE {"ES512", "ES256K", "RS256"})
                  [] kty = "OKP" -> {NONE, "EdDSA", "HS256", "bogus", "Ed"}
Keys == { AsymKey(b, 0, a, NONE) : b \in Bases, a \in RealAlgs \cup {NONE, "bogus", "RS", "ES", "Ed"} }
KeySet == { k \in Keys : k.alg \in AttrFor(k.kty) }
          \cup { OctKey(n, "a", a, NONE) : n \in OctLens, a \in AttrFor("oct") }
HdrAlgs == RealAlgs \cup {"none", "None", "NONE", "hs256", "HS256 ", "bogus", NONE, "#int", "#null"} \cup NearMiss("HS256") \cup NearMiss("RS256") \cup {"ES", "Ed", "E", "H"}
\* "validcfg": a genuine signature by the checker's key under the checker's algorithm, whatever the header says
\* "validnative": a genuine signature by the checker's key under the algorithm that key is made for (a token
\* labelled EdDSA carrying an ECDSA signature by the EC key the checker was - wrongly but admissibly - given)
SigClasses == {"empty", "garbage", "valid", "validcfg", "validnative", "hmacempty", "hmacpubpem", "otherkey"}
Native(k) == CASE k.kty = "oct" -> "HS256" [] k.kty = "RSA" -> "RS256" [] k.kty = "OKP" -> "EdDSA"
               [] k.bits = 256 -> (IF k.crv = "secp256k1" THEN "ES256K" ELSE "ES256") [] k.bits = 384 -> "ES384" [] OTHER -> "ES512"
Routes == {"setkey", "cb-both", "cb-key", "cb-alg"}
OtherKey(k) == IF k.kty = "oct" THEN [k EXCEPT !.var = "b"]
               ELSE CASE k.base = "rsa2048a" -> AsymKey("rsa2048b", 0, NONE, NONE)
                      [] k.base = "rsa3072a" -> AsymKey("rsa3072b", 0, NONE, NONE)
                      [] k.base = "p256a" -> AsymKey("p256b", 0, NONE, NONE)
                      [] k.base = "p384a" -> AsymKey("p384b", 0, NONE, NONE)
                      [] k.base = "p521a" -> AsymKey("p521b", 0, NONE, NONE)
                      [] k.base = "k256a" -> AsymKey("k256b", 0, NONE, NONE)
                      [] k.base = "ed25519a" -> AsymKey("ed25519b", 0, NONE, NONE)
                      [] k.base = "ed448a" -> AsymKey("ed448b", 0, NONE, NONE)

\* ------------------------------------------------------------- cells
\* A: the table.  haskey = 0: no key at all.
\* The cells are kept as FAMILIES of small sets (functions), never as one big set: TLC normalises an explicit
\* set with a binary insertion sort (quadratic element moves) and enumerates unions with a linear membership
\* test per element; 290 k cells in one set cost 3 minutes before the first state, in families seconds.
TableFam == [k \in KeySet |-> { [part |-> "A", side |-> s, calg |-> a, haskey |-> 1, key |-> k, route |-> r, halg |-> "HS256", sig |-> "empty"] :
                                 s \in {"checker", "builder"}, a \in CfgAlgs, r \in {"setkey", "cb-both"} }]
TableNoKey == { [part |-> "A", side |-> s, calg |-> a, haskey |-> 0, key |-> DummyKey, route |-> r, halg |-> "none", sig |-> "empty"] :
                  s \in {"checker", "builder"}, a \in CfgAlgs, r \in {"setkey", "cb-both"} }
\* B: admitted checker configurations x token
AdmittedCfg == { <<a, k>> \in CfgAlgs \X KeySet : a # "INVAL" /\ KeyAlg(k) # "INVAL" /\ Admit("checker", a, [id |-> 0, kd |-> k]) }
TokCells(ak) == { [part |-> "B", side |-> "checker", calg |-> ak[1], haskey |-> 1, key |-> ak[2], route |-> r, halg |-> h, sig |-> s] :
                    r \in Routes, h \in HdrAlgs, s \in SigClasses }
TokFam == [ak \in AdmittedCfg |-> { c \in TokCells(ak) :
                  /\ (c.sig \in {"hmacempty", "hmacpubpem"} => c.halg \in HSAlgs)
                  /\ (c.sig = "hmacpubpem" => c.key.kty # "oct")
                  /\ (c.sig = "validnative" => c.halg \in RealAlgs /\ c.halg # Native(c.key) /\ c.route \in {"setkey", "cb-both"})
                  /\ (c.sig = "validcfg" => (c.calg # "none" \/ KeyAlg(c.key) # "none") /\ c.route \in {"setkey", "cb-both"})
                  /\ (c.route = "cb-alg" => c.calg # "none")
                  /\ (c.route = "cb-key" => c.calg = "none")
                  /\ (Quick /\ c.route \in {"cb-key", "cb-alg"} => c.sig \in {"valid", "hmacempty"}) }]
\* C: builder configurations (private keys), admitted or not
GenKeys == { [k EXCEPT !.priv = 1] : k \in KeySet }
GenFam == [k \in GenKeys |->
             { [part |-> "C", side |-> "builder", calg |-> a, haskey |-> 1, key |-> k, route |-> r, halg |-> "none", sig |-> "empty"] :
                 a \in CfgAlgs, r \in Routes }
             \cup (IF k.kty = "oct" THEN {} ELSE
                   { [part |-> "C", side |-> "builder", calg |-> a, haskey |-> 1, key |-> [k EXCEPT !.priv = 0], route |-> "setkey", halg |-> "none", sig |-> "empty"] :
                       a \in {"none", "RS256", "ES256"} })]
\* (no definition of the union of the three parts: TLC evaluates constant definitions eagerly and
\* enumerates A \cup B with a linear membership test per element)

\* D: history - the same key object first used, successfully, under the algorithm it is made for, then pinned to
\* another algorithm of its family that asks for another curve size (route "pre"): the second use is judged alone
PreKeys == { AsymKey("p256a", 0, NONE, NONE), AsymKey("p384a", 0, NONE, NONE) } \cup (IF Quick THEN {} ELSE { AsymKey("p521a", 0, NONE, NONE), AsymKey("k256a", 0, NONE, NONE) })
PreFam == [k \in PreKeys |->
             { [part |-> "D", side |-> s, calg |-> a, haskey |-> 1, key |-> IF s = "builder" THEN [k EXCEPT !.priv = 1] ELSE k,
                route |-> "pre", halg |-> a, sig |-> "valid"] : s \in {"checker", "builder"}, a \in ESAlgs \ {Native(k)} }]

\* E: the object holds a default key K1 whose alg attribute pins its algorithm (setkey with no explicit algorithm,
\* or with the matching one); the callback hands over ANOTHER key K2 of the same family that has no alg attribute and
\* names no algorithm (route "cb-swap").  K1's attribute says nothing about K2.  halg = K1's attribute = the header's
FamAlgs(k) == CASE k.kty = "oct" -> {"HS256", "HS512"} [] k.kty = "RSA" -> {"RS256", "PS256"} [] OTHER -> {Native(k)}
SwapKeys == { k \in KeySet : k.alg = NONE }
SwapCell(k, side, a, h) == [part |-> "E", side |-> side, calg |-> a, haskey |-> 1, key |-> IF side = "builder" THEN [k EXCEPT !.priv = 1] ELSE k,
                            route |-> "cb-swap", halg |-> h, sig |-> IF side = "builder" THEN "empty" ELSE "valid"]
SwapFam == [k \in SwapKeys |-> UNION { { SwapCell(k, sd, "none", h), SwapCell(k, sd, h, h) } : h \in FamAlgs(k), sd \in {"checker", "builder"} }]
\* F: the object holds a key whose alg attribute pins its algorithm; the callback keeps that key and names ANOTHER
\* algorithm of the key's family (echoing the token's header, say): the attribute is the pin, the token is refused
AttrKeys == { k \in KeySet : k.alg \in RealAlgs /\ Family(k.alg) = k.kty }
MisFam == [k \in AttrKeys |->
             { [part |-> "F", side |-> "checker", calg |-> x, haskey |-> 1, key |-> k, route |-> "cb-alg", halg |-> x, sig |-> "valid"] :
                 x \in { a \in RealAlgs : Family(a) = k.kty /\ a # k.alg } }
             \cup { [part |-> "F", side |-> "builder", calg |-> x, haskey |-> 1, key |-> [k EXCEPT !.priv = 1], route |-> "cb-alg", halg |-> "none", sig |-> "empty"] :
                 x \in { a \in RealAlgs : Family(a) = k.kty /\ a # k.alg } }]
\* ... and when the callback's key DOES carry an attribute, that attribute (not the default key's, not the object's
\* explicit algorithm) is its pin
SwapFam2 == [k \in AttrKeys |-> UNION { { [SwapCell(k, sd, a, h) EXCEPT !.route = r] : a \in {"none", h}, r \in {"cb-swap", "cb-swapn"} }
                                       : h \in FamAlgs(k) \ {k.alg}, sd \in {"checker", "builder"} }]
Dflt(c) == [OtherKey(c.key) EXCEPT !.alg = c.halg, !.priv = c.key.priv]

\* ------------------------------------------------------------- scripts
KeyOf(c) == IF c.side = "builder" /\ c.part = "A" THEN [c.key EXCEPT !.priv = 1] ELSE c.key
Kds(c) == IF c.route \in {"cb-swap", "cb-swapn"} THEN <<Dflt(c), c.key>> ELSE IF c.haskey = 1 THEN <<KeyOf(c)>> ELSE <<>>
Idx(c) == IF c.haskey = 1 THEN 0 ELSE -1
SigOf(c) == CASE c.sig = "empty" -> EmptySig
              [] c.sig = "garbage" -> [Sig("garbage", "HS256", DummyKey) EXCEPT !.cls = "garbage"]
              [] c.sig = "valid" -> Sig("valid", c.halg, c.key)
              [] c.sig = "validcfg" -> Sig("valid", IF c.calg = "none" THEN KeyAlg(c.key) ELSE c.calg, c.key)
              [] c.sig = "validnative" -> Sig("valid", Native(c.key), c.key)
              [] c.sig = "hmacempty" -> Sig("hmacempty", c.halg, DummyKey)
              [] c.sig = "hmacpubpem" -> Sig("hmacpubpem", c.halg, c.key)
              [] c.sig = "otherkey" -> Sig("valid", c.halg, OtherKey(c.key))
TokOf(c) == Tok(c.halg, <<>>, <<>>, SigOf(c))
Prog(c) == CASE c.route = "cb-both" -> <<CbKey(Idx(c)), CbAlg(c.calg)>>
             [] c.route = "cb-key" -> <<CbKey(Idx(c))>>
             [] c.route = "cb-alg" -> <<CbAlg(c.calg)>>
             [] c.route = "cb-swap" -> <<CbKey(1)>>
             [] c.route = "cb-swapn" -> <<CbKey(1), CbAlg("none")>>
             [] OTHER -> <<>>
ConfigOps(c) ==
  IF c.side = "checker"
  THEN <<CNewOp>> \o (CASE c.route = "setkey" -> <<CSetKeyOp(c.calg, Idx(c))>>
                        [] c.route = "pre" -> <<CSetKeyOp(Native(c.key), 0), VerifyOp(Tok(Native(c.key), <<>>, <<>>, Sig("valid", Native(c.key), c.key))),
                                                CSetKeyOp(c.calg, 0)>>
                        [] c.route = "cb-alg" -> <<CSetKeyOp("none", Idx(c)), CSetCbOp(Prog(c))>>
                        [] c.route \in {"cb-swap", "cb-swapn"} -> <<CSetKeyOp(c.calg, 0), CSetCbOp(Prog(c))>>
                        [] OTHER -> <<CSetCbOp(Prog(c))>>)
  ELSE <<BNewOp>> \o (CASE c.route = "setkey" -> <<BSetKeyOp(c.calg, Idx(c))>>
                        [] c.route = "pre" -> <<BSetKeyOp(Native(c.key), 0), GenerateOp(1), BSetKeyOp(c.calg, 0)>>
                        [] c.route = "cb-alg" -> <<BSetKeyOp("none", Idx(c)), BSetCbOp(Prog(c))>>
                        [] c.route \in {"cb-swap", "cb-swapn"} -> <<BSetKeyOp(c.calg, 0), BSetCbOp(Prog(c))>>
                        [] OTHER -> <<BSetCbOp(Prog(c))>>)
Script(c) == (IF c.haskey = 1 THEN <<LoadOp(Kds(c))>> ELSE <<>>) \o ConfigOps(c)
             \o (IF c.side = "checker" THEN <<VerifyOp(TokOf(c))>> ELSE <<GenerateOp(0)>>)

\* ------------------------------------------------- reference evaluation
Rs(c) == RingsOf(Kds(c))
It(c) == ItemOf(Kds(c), Idx(c))
Ck(c) == CASE c.route \in {"setkey", "pre"} -> CheckerWith(c.calg, It(c))
           [] c.route = "cb-alg" -> WithCb(CheckerWith("none", It(c)), Prog(c))
           [] c.route \in {"cb-swap", "cb-swapn"} -> WithCb(CheckerWith(c.calg, It(c)), Prog(c))
           [] OTHER -> WithCb(NewChecker, Prog(c))
Bd(c) == CASE c.route \in {"setkey", "pre"} -> BuilderWith(c.calg, It(c))
           [] c.route = "cb-alg" -> WithCb(BuilderWith("none", It(c)), Prog(c))
           [] c.route \in {"cb-swap", "cb-swapn"} -> WithCb(BuilderWith(c.calg, It(c)), Prog(c))
           [] OTHER -> WithCb(NewBuilder, Prog(c))
VRef(c) ==
  LET pt == ParseForge(TokOf(c)) cb == VerifyCfg(Ck(c), pt, Rs(c))
      sok == cb.cfg.key.id # -1 /\ SigOKForge(TokOf(c), cb.cfg.key.kd)
  IN [pt |-> pt, cb |-> cb, sok |-> sok, ref |-> VerifyRef(Ck(c), pt, cb, sok, T0, "openssl")]
\* the reference generate result rendered as an observed one
GObs(c) == GenRefG(Bd(c), T0, Rs(c), "openssl")

\* ------------------------------------------------------------ the model
MCInit == /\ Init /\ done = FALSE
          /\ \/ \E k \in DOMAIN TableFam : cell \in TableFam[k]
             \/ cell \in TableNoKey
             \/ \E ak \in DOMAIN TokFam : cell \in TokFam[ak]
             \/ \E k \in DOMAIN GenFam : cell \in GenFam[k]
             \/ \E k \in DOMAIN PreFam : cell \in PreFam[k]
             \/ \E k \in DOMAIN SwapFam : cell \in SwapFam[k]
             \/ \E k \in DOMAIN MisFam : cell \in MisFam[k]
             \/ \E k \in DOMAIN SwapFam2 : cell \in SwapFam2[k]
\* stage 'faults': every allocation request made inside jwt_checker_verify fails once on the classic substitutions
FaultKeys == { AsymKey("rsa2048a", 0, NONE, NONE), AsymKey("p256a", 0, "ES256", NONE), OctKey(32, "a", NONE, NONE) }
FaultCells ==
  UNION { { [part |-> "B", side |-> "checker", calg |-> IF k.alg = NONE THEN Native(k) ELSE "none", haskey |-> 1, key |-> k, route |-> r, halg |-> hs[1], sig |-> hs[2]] :
              r \in {"setkey", "cb-both"},
              hs \in { <<"HS256", "hmacpubpem">>, <<"HS256", "hmacempty">>, <<Native(k), "otherkey">>, <<"none", "empty">>, <<Native(k), "empty">>,
                       <<"HS512", "valid">>, <<"PS256", "valid">>, <<"ES384", "valid">> } }
          : k \in FaultKeys }
FaultCellsOK == { c \in FaultCells : (c.sig = "hmacpubpem" => c.key.kty # "oct") /\ (c.sig = "valid" => c.halg # Native(c.key) /\ Family(c.halg) = c.key.kty) }
MCInitFault == Init /\ done = FALSE /\ cell \in FaultCellsOK
MCNext == done = FALSE /\ done' = TRUE /\ UNCHANGED <<cell, vars>>
MCSpec == MCInit /\ [][MCNext]_<<cell, done, vars>>
MCSpecFault == MCInitFault /\ [][MCNext]_<<cell, done, vars>>

\* C02 holds of the reference outcome on every cell
RefSatisfiesC02 ==
  done =>
    IF cell.side = "checker"
    THEN LET v == VRef(cell) IN v.ref = "any" \/ P_C02(v.pt, v.cb, RetOf(v.ref))
    ELSE LET g == GObs(cell) IN g.ret = ANY \/ P_C02g(Bd(cell), T0, Rs(cell), g)
\* the table itself: setkey accepts exactly the documented rows
TableIsTheDocumentedOne ==
  (done /\ cell.part = "A" /\ cell.route = "setkey" /\ AdmitDefined(cell.calg, It(cell))) =>
     LET k == It(cell) a == cell.calg IN
     Admit(cell.side, a, k) <=>
       \/ (k.id = -1 /\ a = "none")
       \/ /\ k.id # -1 /\ (cell.side = "builder" => k.kd.priv = 1)
          /\ \/ (KeyAlg(k.kd) = "none" /\ a # "none")
             \/ (KeyAlg(k.kd) # "none" /\ (a = "none" \/ a = KeyAlg(k.kd)))
\* non-vacuity: some cells are accepted, some HS-vs-asymmetric attacks are in the matrix
Emit == done => PrintT(<<"SCRIPT", ToJson(Script(cell))>>)
=============================================================================
