SPECIFICATION MCSpecFault
CONSTANTS Tier = "quick" MaxLen = 2
INVARIANT RefVerifyOK RefSetKeyOK Emit
CHECK_DEADLOCK FALSE
