------------------------------ MODULE MC_C17 ------------------------------
(* C17: allocation failure is reported - never a crash, never a wrong      *)
(* success.  The scenarios below are behaviours of the specification; for  *)
(* each, the harness counts the library's allocation requests N and        *)
(* re-runs the scenario N times with request k failing (k = 0..N-1,        *)
(* exhaustively), each in a forked child under ASan/UBSan.                 *)
EXTENDS Interp
CONSTANT Tier
Quick == Tier = "quick"

KOct == OctKey(32, "a", "HS256", "k-oct")
KRsa == AsymKey("rsa2048a", 1, "RS256", "k-rsa")
KRsaPub == AsymKey("rsa2048a", 0, NONE, "k-rsap")
KEc == AsymKey("p256a", 1, NONE, "k-ec")
KEcPub == AsymKey("p256a", 0, "ES256", NONE)
KEd == AsymKey("ed25519a", 1, "EdDSA", NONE)
KBad == WithDefect(AsymKey("p384a", 0, NONE, "k-bad"), "x", "notb64")
Val(t, n, v, r) == [t |-> t, name |-> n, val |-> v, replace |-> r, jcls |-> NONE, jm |-> <<>>, jcanon |-> NONE]
ObjText == "{\"a\":1,\"c\":\"z\"}"
ObjM == << <<"a", "int", "", WOf(1)>>, <<"c", "str", "z", W0>> >>
VJ(n, r) == [t |-> "json", name |-> n, val |-> ObjText, replace |-> r, jcls |-> "obj", jm |-> ObjM, jcanon |-> ObjText]
BM(k, w, v) == [op |-> "BMap", b |-> 0, k |-> k, which |-> w, v |-> v]
L(via, doc, kds) == [op |-> "Load", ring |-> 0, via |-> via, doc |-> doc, keys |-> kds]
Read == [k |-> "read"]
CbSet == [k |-> "set", which |-> "clm", v |-> Val("str", "cb", "x", 0), map |-> 0]

LoadScenarios ==
  { <<L("create", "single", <<KOct>>)>>, <<L("create_strn", "keys", <<KRsa, KRsaPub>>)>>, <<L("create", "keys", <<KEc, KEcPub, KBad>>)>>,
    <<L("create", "keys", <<KEd>>), L("load", "single", <<KOct>>)>>,
    <<L("create_fromfile", "keys", <<KOct, KBad, KEcPub>>), [op |-> "Find", ring |-> 0, kid |-> "k-oct"], [op |-> "FreeBad", ring |-> 0], [op |-> "ItemFree", ring |-> 0, index |-> 0]>>,
    <<[op |-> "Load", ring |-> 0, via |-> "create", doc |-> "nonjson", keys |-> <<>>, text |-> "{\"keys\":["]>> }
BuilderScenarios(p) ==
  { <<OpsOp(p), L("create", "keys", <<KOct>>), BNewOp, BSetKeyOp("none", 0), BM("set", "clm", Val("str", "sub", "s", 0)), BM("set", "clm", Val("int", "n", WOf(7), 0)),
      BM("set", "hdr", VJ("j", 0)), BM("set", "clm", VJ(NONE, 0)), BM("get", "clm", Val("json", NONE, NONE, 0)), BM("get", "clm", Val("str", "sub", NONE, 0)),
      BM("del", "clm", Val("int", "n", W0, 0)), GenerateOp(0)>>,
    <<OpsOp(p), L("create", "keys", <<KRsa>>), BNewOp, BSetKeyOp("RS256", 0), [op |-> "BOffset", b |-> 0, claim |-> "exp", secs |-> WOf(600)],
      [op |-> "BOffset", b |-> 0, claim |-> "nbf", secs |-> WOf(5)], BM("set", "hdr", Val("str", "kid", "k", 0)), GenerateOp(0)>>,
    <<OpsOp(p), L("create", "keys", <<KEc>>), BNewOp, BSetKeyOp("ES256", 0), BSetCbOp(<<CbSet>>), GenerateOp(0)>>,
    <<OpsOp(p), L("create", "keys", <<KEd>>), BNewOp, BSetCbOp(<<CbKey(0)>>), GenerateOp(0)>>,
    <<OpsOp(p), BNewOp, BM("set", "clm", Val("bool", "admin", 1, 0)), GenerateOp(0)>> }
Good(k, a) == Tok(a, <<StrM("typ", "JWT")>>, <<StrM("iss", "me"), IntM("exp", WAdd(T0, WOf(500)))>>, Sig("valid", a, k))
CheckerScenarios(p) ==
  { <<OpsOp(p), L("create", "keys", <<KOct>>), CNewOp, CSetKeyOp("HS256", 0), CClaimSetOp("iss", "me"), CLeewayOp("exp", WOf(10)), ForgeOp(0, Good(KOct, "HS256")),
      VerifyOp(SlotTok(0))>>,
    <<OpsOp(p), L("create", "keys", <<KRsaPub>>), CNewOp, CSetKeyOp("RS256", 0), ForgeOp(0, Good(KRsaPub, "RS256")), VerifyOp(SlotTok(0))>>,
    <<OpsOp(p), L("create", "keys", <<KEcPub>>), CNewOp, CSetKeyOp("none", 0), CSetCbOp(<<Read>>), ForgeOp(0, Good(KEcPub, "ES256")), VerifyOp(SlotTok(0))>>,
    \* tokens that must be rejected: a fault must never turn them into accepted ones
    <<OpsOp(p), L("create", "keys", <<KOct>>), CNewOp, CSetKeyOp("HS256", 0), ForgeOp(0, [Good(KOct, "HS256") EXCEPT !.sig = Sig("flipbit", "HS256", KOct)]), VerifyOp(SlotTok(0))>>,
    <<OpsOp(p), L("create", "keys", <<KRsaPub>>), CNewOp, CSetKeyOp("RS256", 0), ForgeOp(0, [Good(KRsaPub, "RS256") EXCEPT !.pay.m = <<IntM("exp", WSub(T0, WOf(5)))>>]), VerifyOp(SlotTok(0))>>,
    <<OpsOp(p), L("create", "keys", <<KEcPub>>), CNewOp, CSetKeyOp("none", 0), CClaimSetOp("aud", "x"), ForgeOp(0, Good(KEcPub, "ES256")), VerifyOp(SlotTok(0))>>,
    <<OpsOp(p), L("create", "keys", <<KOct>>), CNewOp, CSetKeyOp("HS256", 0), ForgeOp(0, Tok("none", <<>>, <<>>, EmptySig)), VerifyOp(SlotTok(0))>>,
    <<OpsOp(p), CNewOp, ForgeOp(0, Tok("none", <<>>, <<StrM("sub", "x")>>, EmptySig)), VerifyOp(SlotTok(0))>>,
    <<OpsOp(p), L("create", "keys", <<KOct>>), CNewOp, CSetCbOp(<<CbKey(0), CbAlg("HS256"), Read>>), ForgeOp(0, Good(KOct, "HS256")), VerifyOp(SlotTok(0))>>,
    \* rejected tokens whose claims the callback rewrites into acceptable ones: the verdict is about the claims
    \* that were signed, with or without a fault
    <<OpsOp(p), L("create", "keys", <<KOct>>), CNewOp, CSetKeyOp("HS256", 0),
      CSetCbOp(<<[k |-> "set", which |-> "clm", v |-> Val("int", "exp", WAdd(T0, WOf(5000)), 1), map |-> 0]>>),
      ForgeOp(0, [Good(KOct, "HS256") EXCEPT !.pay.m = <<IntM("exp", WSub(T0, WOf(5)))>>]), VerifyOp(SlotTok(0))>>,
    <<OpsOp(p), L("create", "keys", <<KEcPub>>), CNewOp, CSetKeyOp("none", 0), CClaimSetOp("iss", "me"),
      CSetCbOp(<<[k |-> "del", which |-> "clm", v |-> Val("int", "nbf", W0, 0), map |-> 0],
                 [k |-> "set", which |-> "clm", v |-> Val("str", "iss", "me", 1), map |-> 0]>>),
      ForgeOp(0, [Good(KEcPub, "ES256") EXCEPT !.pay.m = <<StrM("iss", "you"), IntM("nbf", WAdd(T0, WOf(500)))>>]), VerifyOp(SlotTok(0))>> }
\* configuration calls REPEATED on a checker that already holds a value (a replaced expectation, a second setkey, a
\* second leeway, a replaced callback): a fault in the second call leaves either the old or the new configuration,
\* never none - tokens neither of them accepts stay refused
ReconfScenarios(p) ==
  { <<OpsOp(p), L("create", "keys", <<KOct>>), CNewOp, CSetKeyOp("HS256", 0), CClaimSetOp("iss", "one"), CClaimSetOp("iss", "two"),
      ForgeOp(0, [Good(KOct, "HS256") EXCEPT !.pay.m = <<StrM("iss", "three")>>]), VerifyOp(SlotTok(0)),
      ForgeOp(1, [Good(KOct, "HS256") EXCEPT !.pay.m = <<>>]), VerifyOp(SlotTok(1))>>,
    <<OpsOp(p), L("create", "keys", <<KOct>>), CNewOp, CSetKeyOp("HS256", 0), CClaimSetOp("aud", "a"), CClaimSetOp("sub", "s"), CClaimSetOp("aud", "b"), CClaimDelOp("sub"),
      ForgeOp(0, [Good(KOct, "HS256") EXCEPT !.pay.m = <<StrM("aud", "c"), StrM("sub", "s")>>]), VerifyOp(SlotTok(0))>>,
    <<OpsOp(p), L("create", "keys", <<KOct, KEcPub>>), CNewOp, CSetKeyOp("HS256", 0), CSetKeyOp("ES256", 1), CLeewayOp("exp", WOf(10)), CLeewayOp("exp", WOf(0)),
      ForgeOp(0, Tok("none", <<>>, <<>>, EmptySig)), VerifyOp(SlotTok(0)),
      ForgeOp(1, [Good(KEcPub, "ES256") EXCEPT !.pay.m = <<IntM("exp", WSub(T0, WOf(5)))>>]), VerifyOp(SlotTok(1))>>,
    <<OpsOp(p), L("create", "keys", <<KOct>>), CNewOp, CSetKeyOp("HS256", 0), CSetCbOp(<<CbRet(1)>>), CSetCbOp(<<CbRet(1), Read>>), ForgeOp(0, Good(KOct, "HS256")), VerifyOp(SlotTok(0))>>,
    <<OpsOp(p), L("create", "keys", <<KOct>>), BNewOp, BSetKeyOp("HS256", 0), BM("set", "clm", Val("str", "sub", "a", 0)), BM("set", "clm", Val("str", "sub", "b", 1)),
      BM("set", "hdr", Val("str", "kid", "k", 0)), BM("set", "hdr", Val("str", "kid", "k2", 1)), GenerateOp(0)>> }
RoundTrip(p) ==
  { <<OpsOp(p), L("create", "keys", <<KEd, KOct>>), BNewOp, BSetKeyOp("none", 0), GenerateOp(0), CNewOp, CSetKeyOp("none", 0), VerifyOp(SlotTok(0))>> }
Provs == IF Quick THEN {"openssl"} ELSE Providers
C17Scripts == LoadScenarios \cup UNION { BuilderScenarios(p) \cup CheckerScenarios(p) \cup ReconfScenarios(p) \cup RoundTrip(p) : p \in Provs }
              \cup (IF Quick THEN { s \in CheckerScenarios("gnutls") : s[2].op = "Load" /\ s[2].keys[1].kty # "oct" }
                                  \cup { s \in BuilderScenarios("gnutls") : s[2].op = "Load" /\ s[2].keys[1].kty # "oct" } ELSE {})
MCSpec == ISpecWith(C17Scripts)
=============================================================================
