SPECIFICATION MCSpec
CONSTANTS Tier = "thorough" Reps = 1
INVARIANT RefVerifyOK RefSetKeyOK Emit
CHECK_DEADLOCK FALSE
