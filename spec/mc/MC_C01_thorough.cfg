SPECIFICATION MCSpec
CONSTANTS Tier = "thorough" Reps = 12
INVARIANT RefVerifyOK RefSetKeyOK Emit
CHECK_DEADLOCK FALSE
