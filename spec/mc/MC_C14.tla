------------------------------ MODULE MC_C14 ------------------------------
(* C14: failure is always flagged and explained.  One script per failure   *)
(* cause reachable from outside, each embedded between successful calls so *)
(* that setting AND clearing of flag and message are observed.             *)
EXTENDS Interp
CONSTANT Tier
Quick == Tier = "quick"

KOct == OctKey(32, "a", NONE, NONE)
KOctShort == OctKey(16, "a", NONE, NONE)
KRsa == AsymKey("rsa2048a", 1, NONE, NONE)
KRsaPub == AsymKey("rsa2048a", 0, NONE, NONE)
KEc == AsymKey("p256a", 1, NONE, NONE)
KBogus == AsymKey("rsa2048a", 1, "bogus", NONE)
KOctBogus == OctKey(32, "a", "bogus", NONE)

OtherKey(k) == CASE k.kty = "oct" -> [k EXCEPT !.var = "b"] [] k.kty = "RSA" -> AsymKey("rsa2048b", 0, NONE, NONE)
                 [] OTHER -> AsymKey("p256b", 0, NONE, NONE)
Past == <<BIAS, 405, 1000000>>       \* before T0
Future == <<BIAS, 406, 0>>           \* after T0
Good(k, a) == Tok(a, <<>>, <<StrM("iss", "me")>>, Sig("valid", a, k))
Shape(t, sh) == [t EXCEPT !.shape = sh]
HCls(t, c) == [t EXCEPT !.hdr.cls = c]
PCls(t, c) == [t EXCEPT !.pay.cls = c]
HAlg(t, a) == [t EXCEPT !.hdr.alg = a]
WithSig(t, s) == [t EXCEPT !.sig = s]
WithClm(t, m) == [t EXCEPT !.pay.m = m]

\* failing tokens for a checker holding (k, a)
BadToks(k, a) ==
  LET g == Good(k, a) IN
  { Shape(g, "null"), Shape(g, "empty"), Shape(g, "0dot"), Shape(g, "1dot"), Shape(g, "2seg"), Shape(g, "lead"), Shape(g, "4seg"), Shape(g, "4segempty"), Shape(g, "4segmid"), Shape(g, "dupsig"),
    HCls(g, "notb64"), HCls(g, "len1mod4"), HCls(g, "notjson"), HCls(g, "arr"), HCls(g, "scalar"), HCls(g, "emptyobj"),
    HCls(g, "nulljson"), HCls(g, "strjson"), HCls(g, "empty"),
    HAlg(g, "#long:239:x"), HAlg(g, "#long:240:x"), HAlg(g, "#long:241:x"), HAlg(g, "#long:300:x"), HAlg(g, "#long:5000:x"),   \* names that do not fit the message buffer
    HAlg(g, NONE), HAlg(g, "#int"), HAlg(g, "#null"), HAlg(g, "#arr"), HAlg(g, "bogus"), HAlg(g, "hs256"), HAlg(g, "none"),
    PCls(g, "notb64"), PCls(g, "notjson"), PCls(g, "len1mod4"), PCls(g, "empty"), PCls(g, "scalar"),
    WithSig(g, EmptySig), WithSig(g, Sig("flipbit", a, k)), WithSig(g, Sig("garbage", a, k)), WithSig(g, Sig("notb64", a, k)),
    WithSig(g, Sig("trunc", a, k)), WithSig(g, Sig("valid", a, OtherKey(k))),
    HAlg(WithSig(g, Sig("valid", "HS512", OctKey(64, "a", NONE, NONE))), "HS512"),
    WithClm(g, <<IntM("exp", Past)>>), WithClm(g, <<IntM("nbf", Future)>>),
    WithClm(g, <<StrM("exp", "soon")>>), WithClm(g, <<<<"nbf", "bool", "true", W0>>>>),
    [g EXCEPT !.alter = "pay"] }

VerifySeq(k, a, bad) ==
  << LoadOp(<<k>>), CNewOp, CSetKeyOp(a, 0), VerifyOp(Good(k, a)), VerifyOp(bad), VerifyOp(Good(k, a)), VerifyOp(bad),
     [op |-> "CErrClear", c |-> 0], VerifyOp(bad) >>
VerifyScripts ==
  { VerifySeq(KOct, "HS256", b) : b \in BadToks(KOct, "HS256") }
  \cup { VerifySeq(KRsaPub, "RS256", b) : b \in BadToks(KRsaPub, "RS256") }
  \cup (IF Quick THEN {} ELSE { VerifySeq([KEc EXCEPT !.priv = 0], "ES256", b) : b \in BadToks([KEc EXCEPT !.priv = 0], "ES256") })

\* policy / configuration causes
Unsigned == Tok("none", <<>>, <<>>, EmptySig)
PolicyScripts ==
  { << CNewOp, VerifyOp(Good(KOct, "HS256")), VerifyOp(Unsigned), VerifyOp(Good(KOct, "HS256")) >>,            \* signed token, no key
    << LoadOp(<<KOct>>), CNewOp, CSetKeyOp("none", 0), VerifyOp(Unsigned) >>,                                    \* refused setkey
    << LoadOp(<<KOct>>), CNewOp, CSetKeyOp("HS256", 0), CClaimSetOp("iss", "you"), VerifyOp(Good(KOct, "HS256")),
       CClaimSetOp("iss", "me"), VerifyOp(Good(KOct, "HS256")), CClaimSetOp("aud", "x"), VerifyOp(Good(KOct, "HS256")) >>,
    << LoadOp(<<KOct>>), CNewOp, CSetKeyOp("HS256", 0), CSetCbOp(<<CbRet(1)>>), VerifyOp(Good(KOct, "HS256")),
       CSetCbOp(<<CbRet(0)>>), VerifyOp(Good(KOct, "HS256")) >>,
    << LoadOp(<<KOct>>), CNewOp, CSetCbOp(<<CbKey(0)>>), VerifyOp(Good(KOct, "HS256")) >>,                       \* callback: key without alg
    << LoadOp(<<KOct>>), CNewOp, CSetCbOp(<<CbAlg("HS256")>>), VerifyOp(Good(KOct, "HS256")) >>,                  \* callback: alg without key
    << LoadOp(<<KOct>>), CNewOp, CSetCbOp(<<CbKey(0), CbAlg("HS256")>>), VerifyOp(Good(KOct, "HS256")), VerifyOp(Unsigned) >>,
    << LoadOp(<<KOctShort>>), CNewOp, CSetKeyOp("HS256", 0), VerifyOp(Good(KOctShort, "HS256")) >>,              \* below the floor
    << LoadOp(<<KRsaPub>>), CNewOp, CSetKeyOp("HS256", 0), VerifyOp(Tok("HS256", <<>>, <<>>, Sig("hmacempty", "HS256", DummyKey))) >>,
    << LoadOp(<<KOct>>), CNewOp, CSetKeyOp("RS256", 0), VerifyOp(Good(KRsaPub, "RS256")) >>,
    << LoadOp(<<KOctBogus>>), CNewOp, CSetKeyOp("none", 0), VerifyOp(Good(KOct, "HS256")) >>,
    << LoadOp(<<KOctBogus>>), CNewOp, CSetKeyOp("HS256", 0), VerifyOp(Good(KOct, "HS256")) >> }

\* builder causes
BadPriv == { WithDefect(AsymKey("rsa2048a", 1, NONE, NONE), "qi", "notb64"), WithDefect(AsymKey("p256a", 1, NONE, NONE), "y", "offcurve"),
             WithDefect(AsymKey("ed25519a", 1, NONE, NONE), "crv", "unknownstr"), WithDefect(AsymKey("p384a", 1, "ES384", NONE), "x", "short"),
             WithDefect(AsymKey("rsa2048a", 1, "RS256", NONE), "p", "absent") }
GenSeq(setup) == setup \o << GenerateOp(0), [op |-> "BErrClear", b |-> 0], GenerateOp(1) >>
BuilderScripts ==
  { GenSeq(<<BNewOp>>),
    GenSeq(<<LoadOp(<<KOct>>), BNewOp, BSetKeyOp("HS256", 0)>>),
    GenSeq(<<LoadOp(<<KOctShort>>), BNewOp, BSetKeyOp("HS256", 0)>>),
    GenSeq(<<LoadOp(<<KRsa>>), BNewOp, BSetKeyOp("HS256", 0)>>),
    GenSeq(<<LoadOp(<<KOct>>), BNewOp, BSetKeyOp("RS256", 0)>>),
    GenSeq(<<LoadOp(<<KBogus>>), BNewOp, BSetKeyOp("none", 0)>>),
    GenSeq(<<LoadOp(<<KBogus>>), BNewOp, BSetKeyOp("RS256", 0)>>),
    GenSeq(<<LoadOp(<<KOctBogus>>), BNewOp, BSetCbOp(<<CbKey(0)>>)>>),
    GenSeq(<<LoadOp(<<KRsaPub>>), BNewOp, BSetKeyOp("RS256", 0)>>),
    GenSeq(<<LoadOp(<<KRsaPub>>), BNewOp, BSetCbOp(<<CbKey(0), CbAlg("RS256")>>)>>),
    GenSeq(<<LoadOp(<<KRsa>>), BNewOp, BSetKeyOp("RS256", 0), BSetCbOp(<<CbRet(1)>>)>>),
    GenSeq(<<LoadOp(<<KRsa>>), BNewOp, BSetCbOp(<<CbKey(0)>>)>>),
    GenSeq(<<LoadOp(<<KRsa>>), BNewOp, BSetCbOp(<<CbAlg("RS256")>>)>>),
    GenSeq(<<LoadOp(<<AsymKey("rsa1024a", 1, NONE, NONE)>>), BNewOp, BSetKeyOp("RS256", 0)>>),
    GenSeq(<<LoadOp(<<KEc>>), BNewOp, BSetKeyOp("ES384", 0)>>),
    GenSeq(<<LoadOp(<<KEc>>), BNewOp, BSetKeyOp("EdDSA", 0)>>),
    << LoadOp(<<KRsa>>), BNewOp, BSetKeyOp("RS256", 0), BSetCbOp(<<CbRet(1)>>), GenerateOp(0), BSetCbOp(<<CbRet(0)>>), GenerateOp(1) >> }
  \* keys that failed to import but still say "private": given to the builder by setkey and by the callback
  \cup { GenSeq(<<LoadOp(<<bk>>), BNewOp, BSetKeyOp(a, 0)>>) : bk \in BadPriv, a \in {"none", "RS256", "ES256", "EdDSA"} }
  \cup { GenSeq(<<LoadOp(<<bk>>), BNewOp, BSetCbOp(<<CbKey(0), CbAlg(a)>>)>>) : bk \in BadPriv, a \in {"RS256", "ES256", "EdDSA"} }

\* JWK defects: every errored item carries a message
Def(k, m, c) == WithDefect(k, m, c)
JwkScripts ==
  { << LoadOp(<<KOct, Def(KOct, "k", "absent"), Def(KOct, "k", "number"), Def(KOct, "k", "empty"), Def(KOct, "kty", "absent"),
               Def(KOct, "kty", "unknownstr"), Def(KOct, "kty", "number"), Def(KOct, "alg", "number")>>) >>,
    << LoadOp(<<Def(KRsa, "n", "absent"), Def(KRsa, "e", "notb64"), Def(KRsa, "d", "absent"), Def(KRsa, "p", "number"),
               Def(KRsaPub, "n", "empty"), Def(KRsaPub, "e", "absent")>>) >>,
    << LoadOp(<<Def(KEc, "crv", "absent"), Def(KEc, "crv", "unknownstr"), Def(KEc, "x", "notb64"), Def(KEc, "y", "number"),
               Def(KEc, "x", "short"), Def(KEc, "d", "number")>>) >>,
    << LoadOp(<<Def(AsymKey("ed25519a", 1, NONE, NONE), "crv", "absent"), Def(AsymKey("ed25519a", 0, NONE, NONE), "x", "absent"),
               Def(AsymKey("ed25519a", 0, NONE, NONE), "crv", "unknownstr"), Def(AsymKey("ed25519a", 0, NONE, NONE), "x", "short")>>) >>,
    \* attribute members of the wrong JSON type on otherwise good keys: taken, ignored or refused - if refused, explained
    << LoadOp(<<Def(KOct, "key_ops", "unknownstr"), Def(KOct, "key_ops", "number"), Def(KEc, "key_ops", "null"), Def(KRsa, "key_ops", "object"),
               Def(KOct, "use", "number"), Def(KEc, "use", "array"), Def(KRsa, "kid", "number"), Def(AsymKey("ed25519a", 1, NONE, NONE), "kid", "object"),
               Def(AsymKey("ed25519a", 0, NONE, NONE), "key_ops", "bool"), Def(KOct, "alg", "array"), Def(KEc, "alg", "null")>>) >>,
    \* unknown names that do not fit the message buffer: the item is still explained
    << LoadOp(<<Def(KOct, "kty", "unknownlong"), Def(KEc, "crv", "unknownlong"), Def(AsymKey("ed25519a", 0, NONE, NONE), "crv", "unknownlong"),
               Def(AsymKey("ed448a", 1, NONE, NONE), "crv", "unknownlong"), Def(KRsa, "kty", "unknownlong")>>) >> }

\* value calls return what they store in the error field
Val(t, n, v, r) == [t |-> t, name |-> n, val |-> v, replace |-> r, jcls |-> NONE, jm |-> <<>>, jcanon |-> NONE]
BM(k, w, v) == [op |-> "BMap", b |-> 0, k |-> k, which |-> w, v |-> v]
MapScripts ==
  { << BNewOp, BM("set", "clm", Val("int", "a", WOf(1), 0)), BM("set", "clm", Val("int", "a", WOf(2), 0)),
       BM("set", "clm", Val("str", "", "x", 0)), BM("set", "hdr", Val("str", "b", NONE, 0)),
       BM("get", "clm", Val("str", "a", NONE, 0)), BM("get", "clm", Val("int", "zz", W0, 0)), BM("get", "hdr", Val("bool", NONE, 0, 0)),
       BM("set", "clm", [Val("json", "j", "{\"a\":", 0) EXCEPT !.jcls = "malformed"]), BM("del", "clm", Val("int", "a", W0, 0)) >>,
    \* whole-object sets whose text is an array, a scalar, malformed: refused, with the same code in both places
    << BNewOp, BM("set", "clm", [Val("json", NONE, "[1,2]", 0) EXCEPT !.jcls = "arr"]), BM("set", "hdr", [Val("json", NONE, "[]", 1) EXCEPT !.jcls = "arr"]),
       BM("set", "clm", [Val("json", "", "[1,2]", 1) EXCEPT !.jcls = "arr"]), BM("set", "clm", [Val("json", NONE, "7", 0) EXCEPT !.jcls = "scalar"]),
       BM("set", "hdr", [Val("json", NONE, "{\"a\":", 1) EXCEPT !.jcls = "malformed"]), BM("set", "clm", [Val("json", NONE, NONE, 0) EXCEPT !.jcls = "null"]),
       BM("get", "clm", Val("json", NONE, NONE, 0)) >>,
    \* string values that are not UTF-8: on a fresh name, on an existing one without and with replace
    << BNewOp, BM("set", "clm", Val("str", "s", "#hex:fffe", 0)), BM("set", "hdr", Val("str", "s", "#hex:c0af", 1)),
       BM("set", "clm", Val("str", "a", "x", 0)), BM("set", "clm", Val("str", "a", "#hex:61ff62", 0)), BM("set", "clm", Val("str", "a", "#hex:61ff62", 1)),
       BM("get", "clm", Val("str", "a", NONE, 0)), BM("set", "clm", Val("str", "a", "y", 0)) >>,
    << BNewOp, BSetCbOp(<< [k |-> "set", which |-> "clm", v |-> Val("str", "s", "#hex:fffe", 1), map |-> 0],
                           [k |-> "set", which |-> "hdr", v |-> Val("str", "typ", "#hex:fffe", 1), map |-> 0] >>), GenerateOp(0) >> }

\* (families, not their union: see ISpecFam in Interp.tla)
\* stage 'faults': every allocation request made inside verify / generate fails once: whatever the call returns,
\* return value, error flag and message agree
FaultScriptsV ==
  { << LoadOp(<<KOct>>), CNewOp, CSetKeyOp("HS256", 0), VerifyOp(Good(KOct, "HS256")), VerifyOp(WithSig(Good(KOct, "HS256"), Sig("flipbit", "HS256", KOct))) >>,
    << LoadOp(<<KRsaPub>>), CNewOp, CSetKeyOp("RS256", 0), CSetCbOp(<<>>), VerifyOp(Good(KRsaPub, "RS256")), VerifyOp(WithClm(Good(KRsaPub, "RS256"), <<IntM("exp", Past)>>)) >>,
    << LoadOp(<<[KEc EXCEPT !.priv = 0]>>), CNewOp, CSetKeyOp("ES256", 0), CClaimSetOp("iss", "me"), VerifyOp(Good([KEc EXCEPT !.priv = 0], "ES256")) >> }
FaultScriptsG ==
  { << LoadOp(<<KOct>>), BNewOp, BSetKeyOp("HS256", 0), GenerateOp(0) >>,
    << LoadOp(<<KRsa>>), BNewOp, BSetKeyOp("RS256", 0), BSetCbOp(<<>>), GenerateOp(0) >>,
    << LoadOp(<<KEc>>), BNewOp, BSetKeyOp("ES256", 0), GenerateOp(0) >>, << BNewOp, GenerateOp(0) >> }
FaultScriptsL ==
  { << LoadOp(<<KOct, KRsaPub>>) >>, << LoadOp(<<KEc, AsymKey("ed25519a", 1, NONE, NONE)>>) >>,
    << LoadOp(<<Def(KOct, "k", "absent"), Def(KEc, "crv", "unknownstr"), KRsa>>) >> }
MCSpecFaultL == ISpecFam(<<FaultScriptsL>>)
MCSpecFaultV == ISpecFam(<<FaultScriptsV>>)
MCSpecFaultG == ISpecFam(<<FaultScriptsG>>)
\* a clock that moves while a call is in progress (every reading one second later): one call, one verdict, one
\* explanation - whatever instant the call took for "now"
ClockTickOp(t) == [op |-> "Clock", now |-> t, tick |-> 1]
TickScripts ==
  { << LoadOp(<<KOct>>), CNewOp, CSetKeyOp("HS256", 0), ClockTickOp(T0), VerifyOp(WithClm(Good(KOct, "HS256"), m)), ClockOp(T0), VerifyOp(Good(KOct, "HS256")) >> :
      m \in { <<IntM("exp", WAdd(T0, WOf(1)))>>, <<IntM("exp", WAdd(T0, WOf(2)))>>, <<IntM("nbf", WAdd(T0, WOf(1)))>>, <<IntM("nbf", WAdd(T0, WOf(2)))>>,
              <<IntM("exp", WAdd(T0, WOf(1))), IntM("nbf", WAdd(T0, WOf(1)))>> } }
MCSpec == ISpecFam(<<TickScripts, VerifyScripts, PolicyScripts, BuilderScripts, JwkScripts, MapScripts>>)
=============================================================================
