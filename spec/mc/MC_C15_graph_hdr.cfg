SPECIFICATION MCSpec
CONSTANTS Mode = "graph" MaxLen = 6 Which = "hdr"
VIEW View
INVARIANT Emit
PROPERTY RefusedSetNoChange ReadYourWrite DeleteExact GetPure MergeRule
CHECK_DEADLOCK FALSE
