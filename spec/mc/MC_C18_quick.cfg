SPECIFICATION MCSpec
CONSTANTS Tier = "quick"
INVARIANT SameAsAlone Emit
PROPERTY SharedReadOnly
CHECK_DEADLOCK FALSE
