SPECIFICATION MCSpec
CONSTANTS Tier = "quick"
INVARIANT ExitZeroIffAllVerified CounterExact Emit
CHECK_DEADLOCK FALSE
