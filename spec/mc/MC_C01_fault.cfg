SPECIFICATION MCSpecFault
CONSTANTS Tier = "quick" Reps = 1
INVARIANT RefVerifyOK RefSetKeyOK Emit
CHECK_DEADLOCK FALSE
