------------------------------ MODULE MC_C05 ------------------------------
(* C05: every generated token verifies and delivers the same header and    *)
(* claims.  Behaviours: configure builder ; generate ; configure checker ; *)
(* verify with a reading callback - over key type x admissible algorithm x *)
(* (signing provider, verifying provider) x JSON tree class for header and *)
(* claims x time-claim configuration.  The JSON trees are abstract here    *)
(* ("@tree:<class>"); the harness concretises them with seeded random      *)
(* trees and digests them with one canonicaliser on both sides.            *)
EXTENDS Interp
CONSTANT Tier
Quick == Tier = "quick"

Pairs ==
  { <<OctKey(32, "a", NONE, NONE), "HS256">>, <<OctKey(48, "a", NONE, NONE), "HS384">>, <<OctKey(64, "a", NONE, NONE), "HS512">>,
    <<AsymKey("rsa2048a", 1, NONE, NONE), "RS256">>, <<AsymKey("rsa2048a", 1, NONE, NONE), "PS256">>,
    <<AsymKey("rsa2048a", 1, "PS384", NONE), "PS384">>, <<AsymKey("rsa2052a", 1, NONE, NONE), "RS256">>, <<AsymKey("rsa2052a", 1, NONE, NONE), "PS256">>,
    <<AsymKey("p256a", 1, NONE, NONE), "ES256">>, <<AsymKey("p384a", 1, NONE, NONE), "ES384">>,
    <<AsymKey("p521a", 1, NONE, NONE), "ES512">>, <<AsymKey("k256a", 1, NONE, NONE), "ES256K">>,
    <<AsymKey("ed25519a", 1, NONE, NONE), "EdDSA">>, <<AsymKey("ed448a", 1, NONE, NONE), "EdDSA">> }
  \cup (IF Quick THEN {} ELSE
  { <<AsymKey("rsa2048a", 1, NONE, NONE), "RS384">>, <<AsymKey("rsa2048a", 1, NONE, NONE), "RS512">>,
    <<AsymKey("rsa3072a", 1, NONE, NONE), "PS512">>, <<AsymKey("rsa4096a", 1, "RS256", NONE), "RS256">>,
    <<AsymKey("rsa2056a", 1, NONE, NONE), "RS256">>, <<OctKey(160, "a", "HS512", NONE), "HS512">>,
    <<OctKey(33, "a", NONE, NONE), "HS256">> })
Pub(k) == IF k.kty = "oct" THEN k ELSE [k EXCEPT !.priv = 0]
TreeClasses == IF Quick THEN {"flat", "nested", "unicode", "bigint"} ELSE {"empty", "flat", "nested", "unicode", "bigint", "long"}
Tree(w, cls) == [op |-> "BMap", b |-> 0, k |-> "set", which |-> w, map |-> 0,
                 v |-> [t |-> "json", name |-> NONE, val |-> "@tree:" \o cls, replace |-> 0, jcls |-> "objx", jm |-> <<>>, jcanon |-> NONE]]
IntClaim(n, w) == [op |-> "BMap", b |-> 0, k |-> "set", which |-> "clm", map |-> 0,
                    v |-> [t |-> "int", name |-> n, val |-> w, replace |-> 1, jcls |-> NONE, jm |-> <<>>, jcanon |-> NONE]]
Gen == [op |-> "Generate", b |-> 0, slot |-> 0, lite |-> 1, hjson |-> "@H", cjson |-> "@C"]
TimeCfg == { <<>>, <<[op |-> "BOffset", b |-> 0, claim |-> "exp", secs |-> WOf(3600)], [op |-> "BOffset", b |-> 0, claim |-> "nbf", secs |-> WOf(60)]>>,
             <<[op |-> "BIat", b |-> 0, enable |-> 0]>>,
             \* expiry further away than 32 bits of seconds: a century, 2^31 + 1000 s, the year 9999, the largest time
             <<[op |-> "BOffset", b |-> 0, claim |-> "exp", secs |-> WBig(752, 1643392)]>>,
             <<[op |-> "BOffset", b |-> 0, claim |-> "exp", secs |-> WBig(512, 1000)], [op |-> "BOffset", b |-> 0, claim |-> "nbf", secs |-> WOf(60)]>>,
             <<IntClaim("exp", WBig(60415, 3424639))>>, <<IntClaim("exp", WMax), IntClaim("nbf", WOf(-5))>>,
             \* the application's own iat with the automatic one switched off (and on: the library's wins)
             <<[op |-> "BIat", b |-> 0, enable |-> 0], IntClaim("iat", WOf(1234567))>>, <<IntClaim("iat", WOf(1234567))>>,
             \* "0 or less disables": switched on, then off again with 0 / -1
             <<[op |-> "BOffset", b |-> 0, claim |-> "exp", secs |-> WOf(3600)], [op |-> "BOffset", b |-> 0, claim |-> "exp", secs |-> W0]>>,
             <<[op |-> "BOffset", b |-> 0, claim |-> "exp", secs |-> W0], [op |-> "BOffset", b |-> 0, claim |-> "nbf", secs |-> W0]>>,
             <<[op |-> "BOffset", b |-> 0, claim |-> "nbf", secs |-> WOf(-1)], [op |-> "BOffset", b |-> 0, claim |-> "exp", secs |-> WOf(-1)]>> }
Script(k, a, p1, p2, hc, cc, tc) ==
  << OpsOp(p1), LoadOp(<<k, Pub(k)>>), BNewOp, BSetKeyOp(IF k.alg = NONE THEN a ELSE "none", 0), Tree("hdr", hc), Tree("clm", cc) >>
  \o tc \o
  << Gen, ClockOp(WAdd(T0, WOf(100))), OpsOp(p2), CNewOp >>
  \o (IF tc = <<>> THEN <<>>            \* half of the cells: a checker that has already refused a setkey and a token
      ELSE << CSetKeyOp("none", -1), CSetKeyOp("HS256", -1), VerifyOp([Tok("none", <<>>, <<>>, EmptySig) EXCEPT !.shape = "empty"]) >>)
  \o << CSetKeyOp(IF k.alg = NONE THEN a ELSE "none", 1),
        CSetCbOp(<<[k |-> "read"]>>), VerifyOp([src |-> "slot", slot |-> 0]) >>
TreeScripts ==
  { Script(ka[1], ka[2], p1, p2, hc, cc, tc) :
      ka \in Pairs, p1 \in Providers, p2 \in Providers, hc \in {"flat", "empty"}, cc \in TreeClasses, tc \in TimeCfg }
\* unsigned round trip
NoneScripts ==
  { << BNewOp, Tree("hdr", "flat"), Tree("clm", cc), Gen, CNewOp, CSetCbOp(<<[k |-> "read"]>>), VerifyOp([src |-> "slot", slot |-> 0]) >> : cc \in TreeClasses }
\* JSON text with the escape \u0000 inside strings: whether the builder takes it or refuses it, what it
\* generates must verify (a builder that accepts what no checker can parse breaks the round trip)
NulText == "{\"s\":\"a\\u0000b\",\"t\":[\"\\u0000\"],\"u\":{\"k\":\"\\u0000x\"}}"
NulSet(w) == [op |-> "BMap", b |-> 0, k |-> "set", which |-> w, map |-> 0,
              v |-> [t |-> "json", name |-> NONE, val |-> NulText, replace |-> 0, jcls |-> "objx", jm |-> <<>>, jcanon |-> NONE]]
NulScripts ==
  { << OpsOp(p1), LoadOp(<<ka[1], Pub(ka[1])>>), BNewOp, BSetKeyOp(ka[2], 0), NulSet(w), Gen, OpsOp(p2), CNewOp,
       CSetKeyOp(ka[2], 1), CSetCbOp(<<[k |-> "read"]>>), VerifyOp([src |-> "slot", slot |-> 0]) >> :
      ka \in { <<OctKey(32, "a", NONE, NONE), "HS256">>, <<AsymKey("p256a", 1, NONE, NONE), "ES256">> },
      p1 \in Providers, p2 \in Providers, w \in {"hdr", "clm"} }
\* an application-set typ header of every JSON type (the builder keeps it, C10): the token must verify
TypSet(v) == [op |-> "BMap", b |-> 0, k |-> "set", which |-> "hdr", map |-> 0, v |-> v]
TypVals == { [t |-> "int", name |-> "typ", val |-> WOf(7), replace |-> 1, jcls |-> NONE, jm |-> <<>>, jcanon |-> NONE],
             [t |-> "bool", name |-> "typ", val |-> 1, replace |-> 1, jcls |-> NONE, jm |-> <<>>, jcanon |-> NONE],
             [t |-> "str", name |-> "typ", val |-> "", replace |-> 1, jcls |-> NONE, jm |-> <<>>, jcanon |-> NONE],
             [t |-> "json", name |-> "typ", val |-> "{\"a\":[1,null]}", replace |-> 1, jcls |-> "objx", jm |-> <<>>, jcanon |-> NONE],
             [t |-> "json", name |-> "typ", val |-> "[1.5]", replace |-> 1, jcls |-> "objx", jm |-> <<>>, jcanon |-> NONE],
             [t |-> "json", name |-> "kid", val |-> "{\"k\":null}", replace |-> 1, jcls |-> "objx", jm |-> <<>>, jcanon |-> NONE],
             [t |-> "int", name |-> "crit", val |-> WOf(0), replace |-> 1, jcls |-> NONE, jm |-> <<>>, jcanon |-> NONE] }
TypScripts ==
  { << OpsOp(p1), LoadOp(<<ka[1], Pub(ka[1])>>), BNewOp, BSetKeyOp(ka[2], 0), TypSet(v), [op |-> "Generate", b |-> 0, slot |-> 0, lite |-> 1],
       OpsOp(p2), CNewOp, CSetKeyOp(ka[2], 1), CSetCbOp(<<[k |-> "read"]>>), VerifyOp([src |-> "slot", slot |-> 0]) >> :
      ka \in { <<OctKey(32, "a", NONE, NONE), "HS256">>, <<AsymKey("ed25519a", 1, NONE, NONE), "EdDSA">> },
      p1 \in Providers, p2 \in Providers, v \in TypVals }
C05Scripts == TreeScripts \cup NoneScripts \cup NulScripts \cup TypScripts

\* many ECDSA signatures with small fixed claims (the harness repeats the final pair)
EcPairs == { <<AsymKey("p256a", 1, NONE, NONE), "ES256">>, <<AsymKey("p384a", 1, NONE, NONE), "ES384">>,
             <<AsymKey("p521a", 1, NONE, NONE), "ES512">>, <<AsymKey("k256a", 1, NONE, NONE), "ES256K">> }
EcScripts ==
  { << OpsOp(p1), LoadOp(<<ka[1], Pub(ka[1])>>), BNewOp, BSetKeyOp(ka[2], 0), CNewOp, CSetKeyOp(ka[2], 1),
       [op |-> "Generate", b |-> 0, slot |-> 0, lite |-> 1], VerifyOp([src |-> "slot", slot |-> 0]) >> :
      ka \in EcPairs, p1 \in Providers }
MCSpec == ISpecWith(C05Scripts)
MCSpecEc == ISpecWith(EcScripts)
\* "any token returned": also the one returned although an allocation failed inside generate (stage 'faults':
\* every allocation request made inside jwt_builder_generate fails once)
FaultScripts ==
  { Script(ka[1], ka[2], p, p, "flat", "flat", tc) :
      ka \in { <<OctKey(32, "a", NONE, NONE), "HS256">>, <<AsymKey("rsa2048a", 1, NONE, NONE), "RS256">>,
               <<AsymKey("p256a", 1, NONE, NONE), "ES256">>, <<AsymKey("ed25519a", 1, NONE, NONE), "EdDSA">> },
      p \in Providers,
      tc \in { <<>>, <<[op |-> "BOffset", b |-> 0, claim |-> "exp", secs |-> WOf(3600)], [op |-> "BOffset", b |-> 0, claim |-> "nbf", secs |-> WOf(60)]>> } }
MCSpecFault == ISpecWith(FaultScripts)
=============================================================================
