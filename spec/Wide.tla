------------------------------- MODULE Wide -------------------------------
(* 64-bit signed integers for TLC, whose own integers are 32-bit.          *)
(* A value v is represented by u = v + 2^63 (0 <= u < 2^64) split into     *)
(* three limbs <<a, b, c>> with u = a*2^44 + b*2^22 + c, a < 2^20,         *)
(* b, c < 2^22.  Order is lexicographic.  The driver uses the same         *)
(* encoding (harness/jwtdrv.c: wide/unwide).                               *)
EXTENDS Naturals, Integers, Sequences

L22 == 4194304        \* 2^22
L20 == 1048576        \* 2^20
BIAS == 524288        \* 2^63 / 2^44 = 2^19

IsWide(w) == /\ w \in Seq(Nat) /\ Len(w) = 3
             /\ w[1] < L20 /\ w[2] < L22 /\ w[3] < L22

W0 == <<BIAS, 0, 0>>

\* small constants: -2^31 < n < 2^31
WOf(n) == IF n >= 0 THEN <<BIAS, n \div L22, n % L22>>
          ELSE LET m == -n                      \* u = 2^63 - m
                   c == (L22 - (m % L22)) % L22
                   borrow1 == IF m % L22 = 0 THEN 0 ELSE 1
                   bb == (m \div L22) + borrow1
                   b == (L22 - (bb % L22)) % L22
                   borrow2 == IF bb % L22 = 0 THEN bb \div L22 ELSE (bb \div L22) + 1
               IN <<BIAS - borrow2, b, c>>

\* n * 2^k for the few big constants the models use
\* n * 2^22 + m for 0 <= n < 2^31, 0 <= m < 2^22 (values up to 2^53)
WBig(n, m) == <<BIAS + n \div L22, n % L22, m>>
W2p31 == <<BIAS, 512, 0>>        \* 2^31
W2p40 == <<BIAS, 262144, 0>>     \* 2^40
W2p62 == <<BIAS + 262144, 0, 0>> \* 2^62
WMax  == <<L20 - 1, L22 - 1, L22 - 1>>   \* 2^63 - 1
WMin  == <<0, 0, 0>>                     \* -2^63

WLess(x, y) == \/ x[1] < y[1]
               \/ x[1] = y[1] /\ x[2] < y[2]
               \/ x[1] = y[1] /\ x[2] = y[2] /\ x[3] < y[3]
WLeq(x, y) == x = y \/ WLess(x, y)

\* x + y and x - y on the biased representation; callers stay in range
\* (clock and leeways are far from the 64-bit limits; the library's own
\* arithmetic would be undefined there).
WAdd(x, y) ==
  LET c == x[3] + y[3]
      c3 == c % L22
      k1 == c \div L22
      b == x[2] + y[2] + k1
      b2 == b % L22
      k2 == b \div L22
      a == x[1] + y[1] + k2 - BIAS
  IN <<a, b2, c3>>

WSub(x, y) ==
  LET c == x[3] - y[3]
      c3 == IF c < 0 THEN c + L22 ELSE c
      k1 == IF c < 0 THEN 1 ELSE 0
      b == x[2] - y[2] - k1
      b2 == IF b < 0 THEN b + L22 ELSE b
      k2 == IF b < 0 THEN 1 ELSE 0
      a == x[1] - y[1] - k2 + BIAS
  IN <<a, b2, c3>>

WInRange(w) == w[1] >= 0 /\ w[1] < L20
=============================================================================
