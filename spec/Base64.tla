------------------------------ MODULE Base64 ------------------------------
(* RFC 4648 section 5 (base64url, no padding) as pure operators over       *)
(* sequences of byte values / character codes, with the leniency libjwt    *)
(* documents: the standard alphabet ('+', '/') is accepted on input and    *)
(* decoding stops at the first '='.                             (C11)      *)
(* Written without recursion (position-wise), so that 64 KiB strings can   *)
(* be checked by TLC.                                                      *)
EXTENDS Naturals, Sequences

\* character codes
UpperA == 65  LowerA == 97  Zero == 48  Minus == 45  Under == 95  Plus == 43  Slash == 47  Eq == 61

EncChar(v) == IF v < 26 THEN UpperA + v
              ELSE IF v < 52 THEN LowerA + (v - 26)
              ELSE IF v < 62 THEN Zero + (v - 52)
              ELSE IF v = 62 THEN Minus ELSE Under

\* value of a character, 64 = not in either alphabet
DecVal(c) == IF c >= UpperA /\ c <= UpperA + 25 THEN c - UpperA
             ELSE IF c >= LowerA /\ c <= LowerA + 25 THEN c - LowerA + 26
             ELSE IF c >= Zero /\ c <= Zero + 9 THEN c - Zero + 52
             ELSE IF c = Minus \/ c = Plus THEN 62
             ELSE IF c = Under \/ c = Slash THEN 63
             ELSE 64
InAlphabets(c) == DecVal(c) < 64

\* ---- encoding: n bytes -> 4*(n div 3) + (0 | 2 | 3) characters, no padding
EncLen(n) == 4 * (n \div 3) + (IF n % 3 = 0 THEN 0 ELSE (n % 3) + 1)
B64Enc(b) ==
  LET n == Len(b)
      Byte(i) == IF i <= n THEN b[i] ELSE 0
  IN [j \in 1..EncLen(n) |->
        LET g == (j - 1) \div 4
            p == (j - 1) % 4
            b1 == Byte(3 * g + 1) b2 == Byte(3 * g + 2) b3 == Byte(3 * g + 3)
        IN EncChar(CASE p = 0 -> b1 \div 4
                     [] p = 1 -> (b1 % 4) * 16 + b2 \div 16
                     [] p = 2 -> (b2 % 16) * 4 + b3 \div 64
                     [] OTHER -> b3 % 64)]

\* ---- decoding
\* number of characters ahead of the first '=' (all of them if there is none)
Payload(s) == IF \E i \in 1..Len(s) : s[i] = Eq
              THEN (CHOOSE i \in 1..Len(s) : s[i] = Eq /\ \A j \in 1..(i - 1) : s[j] # Eq) - 1
              ELSE Len(s)
DecLen(p) == 3 * (p \div 4) + (CASE p % 4 = 2 -> 1 [] p % 4 = 3 -> 2 [] OTHER -> 0)
DecBytes(s, p) ==
  LET Val(i) == IF i <= p THEN DecVal(s[i]) ELSE 0 IN
  [i \in 1..DecLen(p) |->
     LET g == (i - 1) \div 3
         q == (i - 1) % 3
         c1 == Val(4 * g + 1) c2 == Val(4 * g + 2) c3 == Val(4 * g + 3) c4 == Val(4 * g + 4)
     IN CASE q = 0 -> c1 * 4 + c2 \div 16
          [] q = 1 -> (c2 % 16) * 16 + c3 \div 4
          [] OTHER -> (c3 % 4) * 64 + c4]

\* Result [ok, any, bytes]:
\*   ok = FALSE: the text must be rejected (a byte outside both alphabets
\*               ahead of any '=', or length 1 modulo 4);
\*   any = TRUE: the property is silent (text containing '=', or decoding
\*               to nothing);
\*   otherwise bytes is the decoding.
B64Dec(s) ==
  LET p == Payload(s)
      foreign == \E i \in 1..p : ~InAlphabets(s[i])
  IN IF foreign \/ Len(s) % 4 = 1 THEN [ok |-> FALSE, any |-> FALSE, bytes |-> <<>>]
     ELSE IF p < Len(s) \/ p < 2 THEN [ok |-> TRUE, any |-> TRUE, bytes |-> <<>>]
     ELSE [ok |-> TRUE, any |-> FALSE, bytes |-> DecBytes(s, p)]
=============================================================================
