------------------------------ MODULE Base64 ------------------------------
(* RFC 4648 section 5 (base64url, no padding) as pure operators over       *)
(* sequences of byte values / character codes, with the leniency libjwt    *)
(* documents: the standard alphabet ('+', '/') is accepted on input and    *)
(* decoding stops at the first '='.                             (C11)      *)
EXTENDS Naturals, Sequences

\* character codes
UpperA == 65  LowerA == 97  Zero == 48  Minus == 45  Under == 95  Plus == 43  Slash == 47  Eq == 61

EncChar(v) == IF v < 26 THEN UpperA + v
              ELSE IF v < 52 THEN LowerA + (v - 26)
              ELSE IF v < 62 THEN Zero + (v - 52)
              ELSE IF v = 62 THEN Minus ELSE Under

\* value of a character, 64 = not in either alphabet
DecVal(c) == IF c >= UpperA /\ c <= UpperA + 25 THEN c - UpperA
             ELSE IF c >= LowerA /\ c <= LowerA + 25 THEN c - LowerA + 26
             ELSE IF c >= Zero /\ c <= Zero + 9 THEN c - Zero + 52
             ELSE IF c = Minus \/ c = Plus THEN 62
             ELSE IF c = Under \/ c = Slash THEN 63
             ELSE 64

RECURSIVE EncFrom(_, _)
EncFrom(b, i) ==
  LET n == Len(b) - i + 1 IN
  IF n <= 0 THEN <<>>
  ELSE IF n = 1 THEN <<EncChar(b[i] \div 4), EncChar((b[i] % 4) * 16)>>
  ELSE IF n = 2 THEN <<EncChar(b[i] \div 4), EncChar((b[i] % 4) * 16 + b[i + 1] \div 16),
                       EncChar((b[i + 1] % 16) * 4)>>
  ELSE <<EncChar(b[i] \div 4), EncChar((b[i] % 4) * 16 + b[i + 1] \div 16),
         EncChar((b[i + 1] % 16) * 4 + b[i + 2] \div 64), EncChar(b[i + 2] % 64)>> \o EncFrom(b, i + 3)
B64Enc(bytes) == EncFrom(bytes, 1)

\* index of the first '=' (Len + 1 if none)
RECURSIVE FirstEq(_, _)
FirstEq(s, i) == IF i > Len(s) THEN i ELSE IF s[i] = Eq THEN i ELSE FirstEq(s, i + 1)

RECURSIVE DecFrom(_, _, _)
\* decode s[i..m]
DecFrom(s, i, m) ==
  LET n == m - i + 1 IN
  IF n <= 1 THEN <<>>
  ELSE LET a == DecVal(s[i]) b == DecVal(s[i + 1]) IN
       IF n = 2 THEN <<a * 4 + b \div 16>>
       ELSE LET c == DecVal(s[i + 2]) IN
            IF n = 3 THEN <<a * 4 + b \div 16, (b % 16) * 16 + c \div 4>>
            ELSE LET d == DecVal(s[i + 3]) IN
                 <<a * 4 + b \div 16, (b % 16) * 16 + c \div 4, (c % 4) * 64 + d>> \o DecFrom(s, i + 4, m)

\* Result [ok, any, bytes]:
\*   ok = FALSE: the text must be rejected (foreign byte ahead of any '=',
\*               or length 1 modulo 4);
\*   any = TRUE: the property is silent (text containing '=', or decoding
\*               to nothing);
\*   otherwise bytes is the decoding.
B64Dec(s) ==
  LET p == FirstEq(s, 1) - 1                                   \* payload length
      foreign == \E i \in 1..p : DecVal(s[i]) = 64
  IN IF foreign \/ Len(s) % 4 = 1 THEN [ok |-> FALSE, any |-> FALSE, bytes |-> <<>>]
     ELSE IF p < Len(s) \/ p < 2 THEN [ok |-> TRUE, any |-> TRUE, bytes |-> <<>>]
     ELSE [ok |-> TRUE, any |-> FALSE, bytes |-> DecFrom(s, 1, p)]
=============================================================================
