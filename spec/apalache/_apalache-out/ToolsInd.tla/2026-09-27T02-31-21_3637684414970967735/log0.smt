Logging is disabled (Z3SolverContext.debug = false). Activate with --debug.
