----------------------------- MODULE ToolsInd -----------------------------
(* Unbounded version of the jwt-verify exit-status argument (C20), for     *)
(* Apalache: the token list is abstracted to the stream of verdicts the    *)
(* environment supplies one at a time, so the state is three integers.     *)
(* IndInv is inductive (checked in two Apalache runs: Init => IndInv with  *)
(* length 0 and IndInv /\ Next => IndInv' with length 1), which proves     *)
(* ExitOK for token lists of ANY length, not only the 520 that TLC         *)
(* enumerates in MC_C20.                                                   *)
EXTENDS Integers

VARIABLES
  \* @type: Int;
  nbad,      \* failing tokens consumed so far (ghost: what really happened)
  \* @type: Int;
  failed,    \* the tool's failure counter
  \* @type: Int;
  status     \* -1 while running, otherwise the exit status

Init == nbad = 0 /\ failed = 0 /\ status = -1

StepGood == status = -1 /\ UNCHANGED <<nbad, failed, status>>
StepBad == status = -1 /\ nbad' = nbad + 1 /\ failed' = failed + 1 /\ UNCHANGED status
\* specified exit status: the count, saturated at 255 (never wrapped)
Exit == status = -1 /\ status' = (IF failed > 255 THEN 255 ELSE failed) /\ UNCHANGED <<nbad, failed>>
Next == StepGood \/ StepBad \/ Exit

\* the property: exit status zero iff no token failed
ExitOK == status # -1 => ((status = 0) <=> (nbad = 0))

IndInv == /\ nbad >= 0 /\ failed = nbad
          /\ status >= -1 /\ status <= 255
          /\ (status # -1 => ((status = 0) <=> (nbad = 0)))

\* IndInv as an initial predicate in Apalache's assignment form
IndInit == nbad \in Nat /\ failed \in Nat /\ status \in (-1)..255 /\ IndInv

\* the pinned tree's behaviour, exit(err) truncated to 8 bits, for contrast:
\* with ExitWrap in place of Exit, ExitOK is violated (Apalache finds nbad = 256)
ExitWrap == status = -1 /\ status' = failed % 256 /\ UNCHANGED <<nbad, failed>>
NextWrap == StepGood \/ StepBad \/ ExitWrap
=============================================================================
