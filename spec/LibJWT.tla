------------------------------ MODULE LibJWT ------------------------------
(***************************************************************************)
(* libjwt as a state machine over keyrings, builders, checkers, the clock  *)
(* and the crypto provider.  One action per public call, parameterised by  *)
(* the call's arguments AND its result: the model checker instantiates the *)
(* result with the reference outcome (operators ...Ref below), the trace   *)
(* specification with the result the implementation logged.  The           *)
(* properties C01..C20 are the operators P_Cxx_... at the end of each      *)
(* section: predicates over (pre-state, arguments, result).                *)
(*                                                                         *)
(* Cryptography is abstract: a signature is described by the key material  *)
(* that made it, the algorithm, the text it covers and a mutation class;   *)
(* SigOK says when such a thing is a valid signature for a given key.      *)
(***************************************************************************)
EXTENDS Naturals, Integers, Sequences, FiniteSets, TLC, JwtTypes, Wide

ANY == "ANY"            \* "the relation leaves this result free"

Range(s) == {s[i] : i \in DOMAIN s}
SeqRemoveAt(s, i) == [j \in 1..(Len(s) - 1) |-> IF j < i THEN s[j] ELSE s[j + 1]]
RECURSIVE SeqFilterIdx(_, _, _)
SeqFilterIdx(s, Keep(_), i) ==
  IF i > Len(s) THEN <<>>
  ELSE IF Keep(s[i]) THEN <<s[i]>> \o SeqFilterIdx(s, Keep, i + 1)
  ELSE SeqFilterIdx(s, Keep, i + 1)
SeqFilter(s, Keep(_)) == SeqFilterIdx(s, Keep, 1)

(***************************************************************************)
(* 1. Typed maps (headers, claims)                          C15, C10, C05  *)
(*                                                                         *)
(* A map is a function from names to members <<t, s, w>>: t the JSON type  *)
(* ("int","str","strx","bool","null","real","obj","arr"), s a string       *)
(* rendering (canonical JSON text for obj/arr, the string itself for str,  *)
(* hex for strx), w the Wide value of an int (W0 otherwise).  In events a  *)
(* map is the name-sorted list of <<name, t, s, w>>.                       *)
(***************************************************************************)
EmptyMap == [n \in {} |-> <<>>]

MapOfList(l) ==
  [n \in {l[i][1] : i \in DOMAIN l} |->
     LET i == CHOOSE j \in DOMAIN l : l[j][1] = n IN <<l[i][2], l[i][3], l[i][4]>>]

MapPut(m, n, mem) == [x \in DOMAIN m \cup {n} |-> IF x = n THEN mem ELSE m[x]]
MapDel(m, n) == [x \in DOMAIN m \ {n} |-> m[x]]
\* members of b override those of a
MapOverride(a, b) == [x \in DOMAIN a \cup DOMAIN b |-> IF x \in DOMAIN b THEN b[x] ELSE a[x]]

NameBad(n) == n = NONE \/ n = ""
IsStrT(t) == t \in {"str", "strx"}

\* A value descriptor v: [t, name, val, replace, jcls, jm, jcanon]
\*   t in {"int","str","bool","json"}; val: Wide | string (NONE = NULL) | 0/1 | text
\*   json only: jcls in {"obj","arr","malformed","scalar","null"},
\*              jm = member list of an object, jcanon = canonical text
MemberOf(v) == CASE v.t = "int"  -> <<"int", "", v.val>>
                 [] v.t = "str"  -> <<"str", v.val, W0>>
                 [] v.t = "bool" -> <<"bool", IF v.val = 0 THEN "false" ELSE "true", W0>>
                 [] v.t = "json" -> <<v.jcls, v.jcanon, W0>>

\* string values that are not UTF-8 (descriptor spelling "#hex:"): such a value cannot be stored
BadUtf8Vals == {"#hex:fffe", "#hex:61ff62", "#hex:c0af"}
\* Set: result [err, map]; err = ANY where the property is silent
MSet(m, v) ==
  IF v.t \in {"int", "str", "bool"} THEN
       IF NameBad(v.name) THEN [err |-> "INVALID", map |-> m]
       ELSE IF v.t = "str" /\ v.val = NONE THEN [err |-> "INVALID", map |-> m]
       \* an unstorable value for an existing name without replace: refused either way, EXIST (the code) or INVALID
       ELSE IF v.name \in DOMAIN m /\ v.replace = 0 /\ v.t = "str" /\ v.val \in BadUtf8Vals
            THEN [err |-> "EXIST", erralt |-> "INVALID", map |-> m]
       ELSE IF v.name \in DOMAIN m /\ v.replace = 0 THEN [err |-> "EXIST", map |-> m]
       \* a named deviation, as the code has it: a string that is not UTF-8 is refused only after a replaced
       \* member has been removed (the statement speaks of empty names and malformed JSON text only).  `alt`
       \* is the other outcome the statement allows just as well - refused with no change - so that repairing
       \* the deviation raises no alarm
       ELSE IF v.t = "str" /\ v.val \in BadUtf8Vals THEN [err |-> "INVALID", map |-> MapDel(m, v.name), alt |-> m]
       ELSE [err |-> "NONE", map |-> MapPut(m, v.name, MemberOf(v))]
  ELSE IF v.t = "json" THEN
       IF v.jcls = "objx" THEN [err |-> ANY, map |-> m]      \* opaque object (contents not modelled, C05)
       ELSE IF v.jcls \notin {"obj", "arr"} THEN [err |-> "INVALID", map |-> m]
       ELSE IF NameBad(v.name) THEN
            IF v.jcls = "obj"
            THEN [err |-> "NONE",
                  map |-> IF v.replace # 0 THEN MapOverride(m, MapOfList(v.jm))
                          ELSE MapOverride(MapOfList(v.jm), m)]
            ELSE [err |-> ANY, map |-> m]            \* nameless array: not stated
       ELSE IF v.name \in DOMAIN m /\ v.replace = 0 THEN [err |-> "EXIST", map |-> m]
       ELSE [err |-> "NONE", map |-> MapPut(m, v.name, MemberOf(v))]
  ELSE [err |-> "INVALID", map |-> m]

\* Get: g = [t, name]; result [err, got] with got = <<t, s, w>> or the whole map
NoGot == <<NONE, NONE, W0>>
MGet(m, g) ==
  IF g.t \in {"int", "str", "bool"} THEN
       IF NameBad(g.name) THEN [err |-> "INVALID", got |-> NoGot]
       ELSE IF g.name \notin DOMAIN m THEN [err |-> "NOEXIST", got |-> NoGot]
       ELSE IF (g.t = "str" /\ ~IsStrT(m[g.name][1])) \/ (g.t # "str" /\ m[g.name][1] # g.t)
            THEN [err |-> "TYPE", got |-> NoGot]
       ELSE [err |-> "NONE", got |-> m[g.name]]
  ELSE IF g.t = "json" THEN
       IF NameBad(g.name) THEN [err |-> "NONE", got |-> <<"wholemap", "", W0>>]
       ELSE IF g.name \notin DOMAIN m THEN [err |-> "NOEXIST", got |-> NoGot]
       ELSE IF m[g.name][1] \in {"obj", "arr"} THEN [err |-> "NONE", got |-> m[g.name]]
       ELSE [err |-> ANY, got |-> NoGot]           \* JSON text of a scalar member: not stated
  ELSE [err |-> "INVALID", got |-> NoGot]

MDel(m, name) == IF NameBad(name) THEN EmptyMap ELSE MapDel(m, name)

(***************************************************************************)
(* 2. Keyrings                                         C07, C08, C16       *)
(*    ring = [live, items : Seq(item), err]                                *)
(*    item = [id, kd, err, kid]: kd the descriptor the item was imported   *)
(*    from (ground truth), err/kid what the library reports for it (items  *)
(*    are immutable after import); in the reference model err = kd.bad and *)
(*    kid = kd.kid.                                                        *)
(***************************************************************************)
NoRing == [live |-> FALSE, items |-> <<>>, err |-> FALSE]

RefItems(kds, nid) == [i \in 1..Len(kds) |-> [id |-> nid + i - 1, kd |-> kds[i], err |-> kds[i].bad, kid |-> kds[i].kid]]

\* How many items must a document of this class add?  (C07)
\*   nonjson -> none (and the set error is raised); a JWKS -> one per element;
\*   any other JSON document -> one.
DocItemCount(doc, nkeys) == CASE doc \in {"keys", "keysextra"} -> nkeys
                              [] doc = "nonjson" -> 0
                              [] OTHER -> 1

FindByKid(items, kid) ==
  IF \E i \in DOMAIN items : items[i].kid # NONE /\ items[i].kid = kid
  THEN items[CHOOSE i \in DOMAIN items :
               /\ items[i].kid # NONE /\ items[i].kid = kid
               /\ \A j \in 1..(i - 1) : ~(items[j].kid # NONE /\ items[j].kid = kid)].id
  ELSE -1

Ids(items) == [i \in DOMAIN items |-> items[i].id]
BadCount(items) == Cardinality({i \in DOMAIN items : items[i].err = 1})
GoodOnly(items) == SeqFilter(items, LAMBDA it : it.err = 0)

KnownOps == {"sign", "verify", "encrypt", "decrypt", "wrapKey", "unwrapKey", "deriveKey", "deriveBits"}
KnownUse(u) == IF u \in {"sig", "enc"} THEN u ELSE NONE

\* C07 for one imported item `it` (projection) of descriptor kd
UsableItem(it) == it.err = 0 /\ it.kty \in {"EC", "RSA", "OKP", "oct"}
                  /\ (IF it.kty = "oct" THEN it.mat.octlen > 0 ELSE it.mat.pem = 1 /\ it.mat.pemok = 1)
P_C07item(it) == (it.err = 1 /\ it.msg = 1) \/ UsableItem(it)
\* C08 for a well-formed descriptor
P_C08item(it, kd) ==
  /\ it.err = 0
  /\ it.kty = kd.kty /\ it.bits = kd.bits /\ it.crv = kd.crv
  /\ it.priv = kd.priv
  /\ it.alg = KeyAlg(kd)
  /\ it.kid = kd.kid
  /\ it.use = KnownUse(kd.use)
  /\ Range(it.ops) = Range(kd.ops) \cap KnownOps
  /\ it.mat.pub = 1
  /\ (kd.priv = 1 => it.mat.prv = 1)
  /\ (kd.kty # "oct" => it.mat.pempriv = kd.priv)

(***************************************************************************)
(* 3. Admission of key/algorithm pairs               C02, C03, C10, C19    *)
(*    cfg = [alg, key] with key an item [id, kd] or NoItem                 *)
(***************************************************************************)
NoItem == [id |-> -1, kd |-> NoKey]
Keyed(cfg) == cfg.key.id # -1
KAlg(cfg) == KeyAlg(cfg.key.kd)

\* jwt.h table for setkey, verbatim.  side in {"builder","checker"}
Admit(side, alg, key) ==
  IF key.id = -1 THEN alg = "none"
  ELSE /\ (side = "builder" => key.kd.priv = 1)
       /\ IF KeyAlg(key.kd) = "none" THEN alg # "none"
          ELSE alg = "none" \/ alg = KeyAlg(key.kd)

\* INVAL on either side: the table is silent on setkey itself; use must fail
AdmitDefined(alg, key) == alg # "INVAL" /\ (key.id = -1 \/ KeyAlg(key.kd) # "INVAL")

Pinned(cfg) == IF cfg.alg # "none" THEN cfg.alg
               ELSE IF Keyed(cfg) THEN KAlg(cfg) ELSE "none"

(***************************************************************************)
(* 4. Tokens                                               C01, C06        *)
(*                                                                         *)
(* A forged token descriptor td:                                           *)
(*   [src |-> "forge", shape, hdr |-> [cls, alg, m], pay |-> [cls, m],     *)
(*    sig |-> [cls, alg, key, over], alter]                                *)
(* Parsed view: [status in {"ok","reject","any"}, alg, spelling, hdr, clm, *)
(*               sigEmpty, td]                                             *)
(***************************************************************************)
HdrRejectCls == {"notjson", "arr", "scalar", "strjson", "nulljson", "notb64", "len1mod4", "empty", "emptyobj"}
PayRejectCls == {"notjson", "notb64", "len1mod4", "empty"}
\* "objnc": an object whose segment is not canonically encoded (the unused bits of the last character are not
\* zero) - neither the properties nor RFC 7515 say whether such a segment is taken: status "any"
PayOkCls == {"obj", "objws"}
HdrOkCls == {"obj", "objws"}
NonStringAlg == {"#int", "#null", "#bool", "#arr", "#obj", "#real"}

ParseForge(td) ==
  LET \* a malformed token still has a header alg spelling (when its header is an object) and
      \* an empty or non-empty third segment: C03 speaks about both whatever else is wrong
      rej == [status |-> "reject", alg |-> "none",
              spelling |-> IF td.shape = "3seg" /\ td.hdr.cls \in {"obj", "objws"} THEN td.hdr.alg ELSE "?",
              hdr |-> EmptyMap, clm |-> EmptyMap, sigEmpty |-> (td.sig.cls = "empty")]
      any == [rej EXCEPT !.status = "any"]
  IN
  IF td.shape \in {"null", "empty", "0dot", "1dot", "2seg", "lead"} THEN rej
  ELSE IF td.hdr.cls \in HdrRejectCls THEN rej
  ELSE IF td.hdr.cls \notin HdrOkCls THEN any
  ELSE IF td.hdr.alg = NONE \/ td.hdr.alg \in NonStringAlg THEN rej
  ELSE IF StrAlg(td.hdr.alg) = "INVAL" THEN rej
  ELSE IF td.pay.cls \in PayRejectCls THEN rej
  ELSE IF td.pay.cls \notin PayOkCls THEN any
  ELSE [status |-> "ok", alg |-> StrAlg(td.hdr.alg), spelling |-> td.hdr.alg,
        hdr |-> MapPut(MapOfList(td.hdr.m), "alg", <<"str", td.hdr.alg, W0>>),
        clm |-> MapOfList(td.pay.m),
        sigEmpty |-> (td.sig.cls = "empty" /\ td.shape = "3seg")]

\* Is the third segment a valid signature, by key material `kd`, under the
\* header's algorithm, over exactly "header.payload"?  By construction of
\* the descriptor (the driver made the bytes accordingly).
SigOKForge(td, kd) ==
  /\ td.shape = "3seg"
  /\ td.alter = "none"
  /\ td.sig.cls \in {"valid", "noncanon"}
  /\ td.sig.over = "self"
  /\ td.sig.alg = td.hdr.alg
  /\ SameMat(td.sig.key, kd)
  /\ FamilyOK(td.sig.alg, td.sig.key)      \* the driver's signer could make it

\* A token generated earlier (normalised Generate result, see section 8):
\*   g = [ret, wf, talg, hdr, clm, sigEmpty, validby]
ParseSlot(g) ==
  IF g.ret = "tok" /\ g.wf /\ StrAlg(g.talg) # "INVAL"
  THEN [status |-> "ok", alg |-> StrAlg(g.talg), spelling |-> g.talg,
        hdr |-> g.hdr, clm |-> g.clm, sigEmpty |-> g.sigEmpty]
  ELSE [status |-> "any", alg |-> "none", spelling |-> NONE, hdr |-> EmptyMap, clm |-> EmptyMap, sigEmpty |-> TRUE]
SigOKSlot(g, item) == g.ret = "tok" /\ item.id \in g.validby

\* any token descriptor: forged, from a slot (tk: slot -> generate result), or opaque bytes
NoParse == [status |-> "any", alg |-> "none", spelling |-> NONE, hdr |-> EmptyMap, clm |-> EmptyMap, sigEmpty |-> TRUE]
\* a slot holds either a generate result or a forged token kept for re-use ([ret |-> "forged", td])
ParseTokIn(tk, td) == CASE td.src = "forge" -> ParseForge(td)
                        [] td.src = "slot" -> IF tk[td.slot].ret = "forged" THEN ParseForge(tk[td.slot].td) ELSE ParseSlot(tk[td.slot])
                        [] OTHER -> NoParse
SigOKIn(tk, td, item) == CASE td.src = "forge" -> item.id # -1 /\ SigOKForge(td, item.kd)
                           [] td.src = "slot" -> IF tk[td.slot].ret = "forged" THEN item.id # -1 /\ SigOKForge(tk[td.slot].td, item.kd)
                                                 ELSE SigOKSlot(tk[td.slot], item)
                           [] OTHER -> FALSE

(***************************************************************************)
(* 5. Claim policy                                               C04       *)
(*    checker: flags (subset of {"exp","nbf","iss","sub","aud"}),          *)
(*             expLee, nbfLee : Wide, expect : name -> string              *)
(***************************************************************************)
IsIntM(mem) == mem[1] = "int"
ExpOK(ck, clm, t) ==
  \/ "exp" \notin ck.flags \/ "exp" \notin DOMAIN clm
  \/ (IsIntM(clm["exp"]) /\ WLess(WSub(t, ck.expLee), clm["exp"][3]))   \* exp > now - leeway
NbfOK(ck, clm, t) ==
  \/ "nbf" \notin ck.flags \/ "nbf" \notin DOMAIN clm
  \/ (IsIntM(clm["nbf"]) /\ WLeq(clm["nbf"][3], WAdd(t, ck.nbfLee)))   \* nbf <= now + leeway
\* byte-for-byte equality of a string member with an expected value; non-ASCII
\* strings travel as hex ("strx" members, "#hex:" expected values)
StrEq(mem, expect) == (mem[1] = "str" /\ mem[2] = expect) \/ (mem[1] = "strx" /\ expect = "#hex:" \o mem[2])
StrOK(ck, clm, n) ==
  \/ n \notin ck.flags
  \/ (n \in DOMAIN clm /\ n \in DOMAIN ck.expect /\ StrEq(clm[n], ck.expect[n]))
ClaimsOK(ck, clm, t) ==
  ExpOK(ck, clm, t) /\ NbfOK(ck, clm, t) /\ StrOK(ck, clm, "iss") /\ StrOK(ck, clm, "sub") /\ StrOK(ck, clm, "aud")

\* time_leeway(claim, secs): only exp/nbf; negative disables
LeewayValid(claim) == claim \in {"exp", "nbf"}
CkAfterLeeway(ck, claim, secs, ret) ==
  IF ret # 0 \/ ~LeewayValid(claim) THEN ck
  ELSE LET on == ~WLess(secs, W0)      \* secs >= 0
           fl == IF on THEN ck.flags \cup {claim} ELSE ck.flags \ {claim}
       IN IF claim = "exp" THEN [ck EXCEPT !.flags = fl, !.expLee = secs]
          ELSE [ck EXCEPT !.flags = fl, !.nbfLee = secs]
StrClaim(claim) == claim \in {"iss", "sub", "aud"}
ClaimSetRet(claim, val) == IF StrClaim(claim) /\ val # NONE /\ val \notin BadUtf8Vals THEN 0 ELSE 1
\* A named deviation, as the code has it: when storing the value fails, the claim has already been made
\* mandatory and the previous expectation has already been dropped - the checker then refuses every
\* token until the claim is set or deleted again (it fails closed).
CkAfterClaimSet(ck, claim, val, ret) ==
  IF ~StrClaim(claim) \/ val = NONE THEN ck
  ELSE IF ret # 0 THEN [ck EXCEPT !.flags = @ \cup {claim}, !.expect = [n \in DOMAIN @ \ {claim} |-> @[n]]]
  ELSE [ck EXCEPT !.flags = @ \cup {claim},
                  !.expect = [n \in DOMAIN @ \cup {claim} |-> IF n = claim THEN val ELSE @[n]]]
CkAfterClaimDel(ck, claim, ret) ==
  IF ~StrClaim(claim) THEN ck
  ELSE [ck EXCEPT !.flags = @ \ {claim}, !.expect = [n \in DOMAIN @ \ {claim} |-> @[n]]]

(***************************************************************************)
(* 6. Callback programs                                     C19, C10, C15  *)
(*    step: [k |-> "set"|"get"|"del", which, v] | [k |-> "key", ring, key] *)
(*          | [k |-> "alg", alg] | [k |-> "ret", ret] | [k |-> "read"]     *)
(*    state: [hdr, clm, cfg, ret]                                          *)
(***************************************************************************)
CbStep(st, s, rs) ==
  CASE s.k = "set" ->
         LET r == MSet(IF s.which = "hdr" THEN st.hdr ELSE st.clm, s.v)
         IN IF s.which = "hdr" THEN [st EXCEPT !.hdr = r.map] ELSE [st EXCEPT !.clm = r.map]
    [] s.k = "del" ->
         IF s.which = "hdr" THEN [st EXCEPT !.hdr = MDel(st.hdr, s.v.name)]
         ELSE [st EXCEPT !.clm = MDel(st.clm, s.v.name)]
    [] s.k = "key" ->
         [st EXCEPT !.cfg.key =
            IF s.key < 0 \/ ~rs[s.ring].live \/ s.key >= Len(rs[s.ring].items) THEN NoItem
            ELSE rs[s.ring].items[s.key + 1], !.touched = TRUE]
    [] s.k = "alg" -> [st EXCEPT !.cfg.alg = s.alg, !.touched = TRUE]
    [] s.k = "ret" -> [st EXCEPT !.ret = s.ret]
    [] OTHER -> st
RECURSIVE RunProg(_, _, _, _)
RunProg(st, prog, i, rs) ==
  IF i > Len(prog) THEN st ELSE RunProg(CbStep(st, prog[i], rs), prog, i + 1, rs)
CbRun(hdr, clm, cfg, prog, rs) ==
  RunProg([hdr |-> hdr, clm |-> clm, cfg |-> cfg, ret |-> 0, touched |-> FALSE], prog, 1, rs)

(***************************************************************************)
(* 7. verify                                  C01-C04, C06, C09, C13, C14  *)
(*                                                                         *)
(* VerifyRef: the reference outcome in {"accept","reject","any"} for a     *)
(* checker ck, parsed token pt, signature predicate sok (valid for the     *)
(* configured key?), clock t, provider o.                                  *)
(***************************************************************************)
Supported(o, alg) == ~(o = "gnutls" /\ alg = "ES256K")

\* cfg after the callback and the callback's return
VerifyCfg(ck, pt, rs) ==
  IF ck.hascb THEN CbRun(pt.hdr, pt.clm, [alg |-> ck.alg, key |-> ck.key], ck.cb, rs)
  ELSE [hdr |-> pt.hdr, clm |-> pt.clm, cfg |-> [alg |-> ck.alg, key |-> ck.key], ret |-> 0, touched |-> FALSE]

\* every layer after parsing, on the ORIGINAL claims (the callback cannot
\* bend the verdict: C19 / jwt.h)
VerifyAfterParse(ck, pt, cb, sok, t, o) ==
  LET cfg == cb.cfg IN
  IF cb.ret # 0 THEN "reject"
  ELSE IF ~AdmitDefined(cfg.alg, cfg.key) THEN "reject"
  ELSE IF ~Admit("checker", cfg.alg, cfg.key) THEN "reject"
  ELSE IF ~ClaimsOK(ck, pt.clm, t) THEN "reject"
  ELSE IF pt.sigEmpty THEN
       IF Keyed(cfg) \/ cfg.alg # "none" \/ pt.spelling # "none" THEN "reject" ELSE "accept"
  ELSE IF pt.alg = "none" THEN "reject"
  ELSE IF ~Keyed(cfg) THEN "reject"
  ELSE IF pt.alg # Pinned(cfg) THEN "reject"
  ELSE IF ~FamilyOK(pt.alg, cfg.key.kd) THEN "reject"
  ELSE IF ~FloorOK(pt.alg, cfg.key.kd) THEN "reject"
  ELSE IF pt.alg \in ESAlgs /\ ~CurveOK(pt.alg, cfg.key.kd) THEN "any"   \* same size, other curve: not stated
  ELSE IF ~Supported(o, pt.alg) THEN "any"
  ELSE IF sok THEN "accept" ELSE "reject"

VerifyRef(ck, pt, cb, sok, t, o) ==
  IF pt.status = "reject" THEN "reject"
  ELSE IF pt.status = "any" THEN "any"
  ELSE VerifyAfterParse(ck, pt, cb, sok, t, o)

\* ---- property clauses on an observed verify result `ret` (0 = accepted)
\* C06: malformed classes are rejected
P_C06(pt, ret) == pt.status = "reject" => ret # 0
\* C01: accepted with a key => the signature is valid for that key
P_C01(pt, cb, sok, ret) == (ret = 0 /\ pt.status = "ok" /\ Keyed(cb.cfg)) => (sok /\ ~pt.sigEmpty)
\* C02: accepted with a key => header alg is the pinned one, of the key's family;
\*      pairs outside the table are refused
P_C02(pt, cb, ret) ==
  /\ (ret = 0 /\ pt.status = "ok" /\ Keyed(cb.cfg)) =>
        /\ pt.alg = Pinned(cb.cfg) /\ pt.alg \in RealAlgs
        /\ FamilyOK(pt.alg, cb.cfg.key.kd)
        /\ (pt.alg \in ESAlgs => FloorOK(pt.alg, cb.cfg.key.kd))   \* "EC of matching size"
  /\ (pt.status = "ok" /\ cb.ret = 0 /\ ~Admit("checker", cb.cfg.alg, cb.cfg.key)) => ret # 0
  \* a header alg that is a string but not (exactly) an algorithm name names "another algorithm" too
  /\ (pt.status = "reject" /\ Keyed(cb.cfg) /\ pt.spelling \notin {"?", NONE} /\ pt.spelling \notin NonStringAlg
        /\ StrAlg(pt.spelling) = "INVAL") => ret # 0
\* C03: unsigned only without key and algorithm
P_C03(pt, cb, ret) ==
  /\ (ret = 0 /\ pt.status = "ok") =>
        /\ (Keyed(cb.cfg) => ~pt.sigEmpty /\ pt.alg # "none")
        /\ (~Keyed(cb.cfg) => pt.sigEmpty /\ pt.spelling = "none")
  \* whatever else is wrong with the token: no key => only alg exactly "none"; key => never an empty signature
  /\ (ret = 0 /\ pt.status = "reject") =>
        /\ (~Keyed(cb.cfg) => pt.spelling = "none")
        /\ (Keyed(cb.cfg) => ~pt.sigEmpty)
\* C04: claims; iff on otherwise acceptable tokens
P_C04(ck, pt, cb, sok, t, o, ret) ==
  /\ (ret = 0 /\ pt.status = "ok") => ClaimsOK(ck, pt.clm, t)
  /\ (pt.status = "ok" /\ ClaimsOK(ck, pt.clm, t) /\ VerifyAfterParse(ck, pt, cb, sok, t, o) = "accept") => ret = 0
\* C09: floor, both directions
\* (a key whose import failed has no strength at all: nothing verifies under it, nothing is signed with it; the
\* "works" direction speaks about keys that were imported)
ItemBad(it) == it.id # -1 /\ "err" \in DOMAIN it /\ it.err = 1
P_C09(ck, pt, cb, sok, t, o, ret) ==
  /\ (ret = 0 /\ pt.status = "ok" /\ Keyed(cb.cfg)) => (FloorOK(pt.alg, cb.cfg.key.kd) /\ ~ItemBad(cb.cfg.key))
  /\ (pt.status = "ok" /\ ~ItemBad(cb.cfg.key) /\ VerifyAfterParse(ck, pt, cb, sok, t, o) = "accept") => ret = 0
\* C14: flag and message follow the return value
P_C14v(ret, err, msg) == ((ret # 0) <=> (err = 1)) /\ (err = 1 => msg = 1) /\ (ret = 0 => msg = 0)
\* C19: callback return and untouched config
P_C19(cb, ret, nocbret) == (cb.ret # 0 => ret # 0) /\ ((cb.ret = 0 /\ ~cb.touched) => ((ret = 0) <=> (nocbret = 0)))
\* full conformance
P_FullV(ref, ret) == ref = "any" \/ (ref = "accept" <=> ret = 0)

(***************************************************************************)
(* 8. generate                                     C03, C05, C10, C13, C14 *)
(*    builder: [live, alg, key, hdr, clm, iat, nbfOn, expOn, nbfOff,       *)
(*              expOff, cb, hascb, err, msg]                               *)
(***************************************************************************)
GenClaims(b, t) ==
  LET c1 == IF b.iat THEN MapPut(b.clm, "iat", <<"int", "", t>>) ELSE b.clm
      c2 == IF b.nbfOn THEN MapPut(c1, "nbf", <<"int", "", WAdd(t, b.nbfOff)>>) ELSE c1
      c3 == IF b.expOn THEN MapPut(c2, "exp", <<"int", "", WAdd(t, b.expOff)>>) ELSE c2
  IN c3
GenCfg0(b) == [alg |-> Pinned([alg |-> b.alg, key |-> b.key]), key |-> b.key]
GenCb(b, t, rs) ==
  IF b.hascb THEN CbRun(b.hdr, GenClaims(b, t), GenCfg0(b), b.cb, rs)
  ELSE [hdr |-> b.hdr, clm |-> GenClaims(b, t), cfg |-> GenCfg0(b), ret |-> 0, touched |-> FALSE]

\* Reference: [ret |-> "null"|"tok"|ANY, alg, hdr, clm, signed, key]
GenRef(b, t, rs, o) ==
  LET cb == GenCb(b, t, rs)
      cfg == cb.cfg
      alg == Pinned(cfg)
      null == [ret |-> "null", alg |-> "none", hdr |-> EmptyMap, clm |-> EmptyMap, key |-> NoItem]
      hdr3 == MapPut(IF alg # "none" /\ "typ" \notin DOMAIN cb.hdr
                     THEN MapPut(cb.hdr, "typ", <<"str", "JWT", W0>>) ELSE cb.hdr,
                     "alg", <<"str", alg, W0>>)
  IN
  IF cb.ret # 0 THEN null
  ELSE IF ~AdmitDefined(cfg.alg, cfg.key) THEN null
  ELSE IF ~Admit("builder", cfg.alg, cfg.key) THEN null
  ELSE IF ~Keyed(cfg) THEN [ret |-> "tok", alg |-> "none", hdr |-> hdr3, clm |-> cb.clm, key |-> NoItem]
  ELSE IF alg \notin RealAlgs THEN null
  ELSE IF ~FamilyOK(alg, cfg.key.kd) THEN null
  ELSE IF ~FloorOK(alg, cfg.key.kd) THEN null
  ELSE IF alg \in ESAlgs /\ ~CurveOK(alg, cfg.key.kd) THEN [null EXCEPT !.ret = ANY]
  ELSE IF ~Supported(o, alg) THEN [null EXCEPT !.ret = ANY]
  ELSE [ret |-> "tok", alg |-> alg, hdr |-> hdr3, clm |-> cb.clm, key |-> cfg.key]

\* A generate result, normalised:
\*   g = [ret, wf, talg, hdr, clm, sigEmpty, validby]
\*   wf: exactly two dots, no padding, URL-safe alphabet, every segment the canonical
\*   unpadded base64url of what it decodes to; hdr/clm: decoded header and payload
\*   objects as maps; validby: ids of the keys under which the signature verifies.
NullG == [ret |-> "null", wf |-> FALSE, talg |-> NONE, hdr |-> EmptyMap, clm |-> EmptyMap, sigEmpty |-> TRUE, validby |-> {}]
\* the reference result in that shape
GenRefG(b, t, rs, o) ==
  LET r == GenRef(b, t, rs, o) IN
  IF r.ret = "tok" THEN [ret |-> "tok", wf |-> TRUE, talg |-> r.alg, hdr |-> r.hdr, clm |-> r.clm,
                         sigEmpty |-> (r.alg = "none"), validby |-> IF r.alg = "none" THEN {} ELSE {r.key.id}]
  ELSE [NullG EXCEPT !.ret = r.ret]

\* C10 on a returned token
P_C10(b, t, rs, o, g, hdrAfter, clmAfter) ==
  LET ref == GenRef(b, t, rs, o) IN
  /\ g.ret = "tok" =>
       /\ g.wf
       /\ ref.ret # "null"                       \* e.g. public-only key refused
       /\ (ref.ret = "tok" =>
             /\ g.hdr = ref.hdr /\ g.clm = ref.clm /\ g.talg = ref.alg
             /\ (ref.alg = "none" <=> g.sigEmpty))
  /\ hdrAfter = b.hdr /\ clmAfter = b.clm       \* builder unchanged by generating
\* C03, builder side: key (from setkey or callback) => never unsigned; no key => alg none, empty third segment
P_C03g(b, t, rs, g) ==
  LET cb == GenCb(b, t, rs) IN
  g.ret = "tok" =>
     /\ (Keyed(cb.cfg) => ~g.sigEmpty /\ g.talg # "none")
     /\ (~Keyed(cb.cfg) => g.sigEmpty /\ g.talg = "none")
\* C02, builder side: produced only with the pinned algorithm and a key of its family
P_C02g(b, t, rs, g) ==
  LET cb == GenCb(b, t, rs) IN
  (g.ret = "tok" /\ Keyed(cb.cfg)) =>
     /\ g.talg = Pinned(cb.cfg) /\ g.talg \in RealAlgs
     /\ FamilyOK(g.talg, cb.cfg.key.kd)
     /\ Admit("builder", cb.cfg.alg, cb.cfg.key)
\* C09, builder side
P_C09g(b, t, rs, o, g) ==
  LET cb == GenCb(b, t, rs) ref == GenRef(b, t, rs, o) IN
  /\ (g.ret = "tok" /\ Keyed(cb.cfg) /\ g.talg \in RealAlgs) => (FloorOK(g.talg, cb.cfg.key.kd) /\ ~ItemBad(cb.cfg.key))
  /\ ((ref.ret = "tok" /\ ~ItemBad(cb.cfg.key)) => g.ret = "tok")
\* C14: NULL <=> flag set with message
P_C14g(ret, err, msg) == ((ret = "null") <=> (err = 1)) /\ (err = 1 => msg = 1) /\ (ret = "tok" => msg = 0)
\* signature of a produced token is valid for the key used (C05 / C10)
P_GenSig(b, t, rs, o, g) ==
  LET ref == GenRef(b, t, rs, o) IN
  (g.ret = "tok" /\ ref.ret = "tok" /\ ref.alg # "none") => ref.key.id \in g.validby

BdAfterOffset(b, claim, secs, ret) ==
  IF ret # 0 \/ claim \notin {"exp", "nbf"} THEN b
  ELSE LET on == WLess(W0, secs) IN           \* secs > 0
       IF claim = "exp" THEN [b EXCEPT !.expOn = on, !.expOff = secs]
       ELSE [b EXCEPT !.nbfOn = on, !.nbfOff = secs]

NewChecker == [live |-> TRUE, alg |-> "none", key |-> NoItem, expect |-> [n \in {} |-> ""],
               flags |-> {"exp", "nbf"}, expLee |-> W0, nbfLee |-> W0,
               cb |-> <<>>, hascb |-> FALSE, err |-> 0, msg |-> 0]
NewBuilder == [live |-> TRUE, alg |-> "none", key |-> NoItem, hdr |-> EmptyMap, clm |-> EmptyMap,
               iat |-> TRUE, nbfOn |-> FALSE, expOn |-> FALSE, nbfOff |-> W0, expOff |-> W0,
               cb |-> <<>>, hascb |-> FALSE, err |-> 0, msg |-> 0]
Dead == [live |-> FALSE]

(***************************************************************************)
(* 9. Providers                                                    C12     *)
(***************************************************************************)
Providers == {"openssl", "gnutls"}
ProviderId == [openssl |-> 1, gnutls |-> 2]
OpsAfterSet(o, name) == IF name \in Providers THEN name ELSE o
OpsSetRet(name) == IF name \in Providers THEN 0 ELSE 1
OpsAfterSetT(o, id) == IF id = 1 THEN "openssl" ELSE IF id = 2 THEN "gnutls" ELSE o
OpsSetTRet(id) == IF id \in {1, 2} THEN 0 ELSE 1

(***************************************************************************)
(* 9b. Command-line tools: what an observed run must satisfy      C20      *)
(*     (the tools as process machines are in Tools.tla)                    *)
(***************************************************************************)
\* jwt-verify over `good` verifying and `bad` failing tokens exited with `code`
P_VerifyExit(good, bad, code) == (code = 0) <=> (bad = 0)
\* key2jwk output for an EC key of `bits`: fixed-width x, y (and d when private), RFC 7518 6.2
FieldLen(bits) == (bits + 7) \div 8
P_EcWidths(bits, priv, xlen, ylen, dlen) ==
  xlen = FieldLen(bits) /\ ylen = FieldLen(bits) /\ (priv = 1 => dlen = FieldLen(bits))
\* an imported item (projection) denotes the key it was made from
P_SameKey(it, kty, bits, priv) ==
  it.err = 0 /\ it.kty = kty /\ it.bits = bits /\ it.priv = priv /\ it.mat.pub = 1 /\ (priv = 1 => it.mat.prv = 1)

(***************************************************************************)
(* 10. State and actions                                                   *)
(***************************************************************************)
VARIABLES now, ops, rings, builders, checkers, toks, nextId
vars == <<now, ops, rings, builders, checkers, toks, nextId>>

RingIds == 0..3
ObjIds == 0..3
SlotIds == 0..7

Init ==
  /\ now = <<BIAS, 405, 1306880>>        \* 1 700 000 000
  /\ ops = "openssl"
  /\ rings = [r \in RingIds |-> NoRing]
  /\ builders = [b \in ObjIds |-> Dead]
  /\ checkers = [c \in ObjIds |-> Dead]
  /\ toks = [s \in SlotIds |-> NullG]
  /\ nextId = 0

ItemAt(rs, r, idx) ==
  IF idx < 0 \/ ~rs[r].live \/ idx >= Len(rs[r].items) THEN NoItem ELSE rs[r].items[idx + 1]

Clock(t) == now' = t /\ UNCHANGED <<ops, rings, builders, checkers, toks, nextId>>
SetOps(name) == ops' = OpsAfterSet(ops, name) /\ UNCHANGED <<now, rings, builders, checkers, toks, nextId>>
SetOpsT(id) == ops' = OpsAfterSetT(ops, id) /\ UNCHANGED <<now, rings, builders, checkers, toks, nextId>>

\* jwks_load & co.: `newitems` = the items appended (reference: RefItems;
\* trace: built from what the implementation reports, so that later indices
\* line up), `seterr` the set error flag afterwards.
Load(r, newitems, seterr) ==
  /\ rings' = [rings EXCEPT ![r] =
        [live |-> TRUE,
         items |-> (IF rings[r].live THEN rings[r].items ELSE <<>>) \o newitems,
         err |-> (seterr = 1)]]
  /\ nextId' = nextId + Len(newitems)
  /\ UNCHANGED <<now, ops, builders, checkers, toks>>

ItemFree(r, idx, ret) ==
  /\ rings' = [rings EXCEPT ![r].items =
        IF idx >= 0 /\ idx < Len(@) THEN SeqRemoveAt(@, idx + 1) ELSE @]
  /\ UNCHANGED <<now, ops, builders, checkers, toks, nextId>>
FreeBad(r) ==
  /\ rings' = [rings EXCEPT ![r].items = GoodOnly(@)]
  /\ UNCHANGED <<now, ops, builders, checkers, toks, nextId>>
FreeAll(r) ==
  /\ rings' = [rings EXCEPT ![r].items = <<>>]
  /\ UNCHANGED <<now, ops, builders, checkers, toks, nextId>>
RingErrClear(r) ==
  /\ rings' = [rings EXCEPT ![r].err = FALSE]
  /\ UNCHANGED <<now, ops, builders, checkers, toks, nextId>>
RingFree(r) ==
  /\ rings' = [rings EXCEPT ![r] = NoRing]
  /\ UNCHANGED <<now, ops, builders, checkers, toks, nextId>>

CNew(c) == checkers' = [checkers EXCEPT ![c] = NewChecker] /\ UNCHANGED <<now, ops, rings, builders, toks, nextId>>
BNew(b) == builders' = [builders EXCEPT ![b] = NewBuilder] /\ UNCHANGED <<now, ops, rings, checkers, toks, nextId>>
CFree(c) == checkers' = [checkers EXCEPT ![c] = Dead] /\ UNCHANGED <<now, ops, rings, builders, toks, nextId>>
BFree(b) == builders' = [builders EXCEPT ![b] = Dead] /\ UNCHANGED <<now, ops, rings, checkers, toks, nextId>>

ErrAfter(o, failed) == IF failed THEN [o EXCEPT !.err = 1, !.msg = 1] ELSE o

CSetKey(c, alg, r, idx, ret) ==
  /\ checkers' = [checkers EXCEPT ![c] =
        ErrAfter(IF ret = 0 THEN [@ EXCEPT !.alg = alg, !.key = ItemAt(rings, r, idx)] ELSE @, ret # 0)]
  /\ UNCHANGED <<now, ops, rings, builders, toks, nextId>>
BSetKey(b, alg, r, idx, ret) ==
  /\ builders' = [builders EXCEPT ![b] =
        ErrAfter(IF ret = 0 THEN [@ EXCEPT !.alg = alg, !.key = ItemAt(rings, r, idx)] ELSE @, ret # 0)]
  /\ UNCHANGED <<now, ops, rings, checkers, toks, nextId>>
CLeeway(c, claim, secs, ret) ==
  /\ checkers' = [checkers EXCEPT ![c] = CkAfterLeeway(@, claim, secs, ret)]
  /\ UNCHANGED <<now, ops, rings, builders, toks, nextId>>
CClaimSet(c, claim, val, ret) ==
  /\ checkers' = [checkers EXCEPT ![c] = CkAfterClaimSet(@, claim, val, ret)]
  /\ UNCHANGED <<now, ops, rings, builders, toks, nextId>>
CClaimDel(c, claim, ret) ==
  /\ checkers' = [checkers EXCEPT ![c] = CkAfterClaimDel(@, claim, ret)]
  /\ UNCHANGED <<now, ops, rings, builders, toks, nextId>>
CSetCb(c, prog, has, ret) ==
  /\ checkers' = [checkers EXCEPT ![c] = IF ret = 0 THEN [@ EXCEPT !.cb = prog, !.hascb = has] ELSE @]
  /\ UNCHANGED <<now, ops, rings, builders, toks, nextId>>
\* setcb(NULL, ctx): with a callback installed only the context changes (the callback stays); without
\* one the call is refused with an error
SetCbCtxRet(o) == IF o.hascb THEN 0 ELSE 1
CSetCbCtx(c, ret) ==
  /\ checkers' = [checkers EXCEPT ![c] = ErrAfter(@, ret # 0)]
  /\ UNCHANGED <<now, ops, rings, builders, toks, nextId>>
BSetCbCtx(b, ret) ==
  /\ builders' = [builders EXCEPT ![b] = ErrAfter(@, ret # 0)]
  /\ UNCHANGED <<now, ops, rings, checkers, toks, nextId>>
BSetCb(b, prog, has, ret) ==
  /\ builders' = [builders EXCEPT ![b] = IF ret = 0 THEN [@ EXCEPT !.cb = prog, !.hascb = has] ELSE @]
  /\ UNCHANGED <<now, ops, rings, checkers, toks, nextId>>
BIat(b, enable) ==
  /\ builders' = [builders EXCEPT ![b].iat = (enable # 0)]
  /\ UNCHANGED <<now, ops, rings, checkers, toks, nextId>>
BOffset(b, claim, secs, ret) ==
  /\ builders' = [builders EXCEPT ![b] = BdAfterOffset(@, claim, secs, ret)]
  /\ UNCHANGED <<now, ops, rings, checkers, toks, nextId>>
\* header/claim operation on a builder; the map follows the reference
BMap(b, k, which, v) ==
  /\ builders' = [builders EXCEPT ![b] =
        LET m == IF which = "hdr" THEN @.hdr ELSE @.clm
            m2 == CASE k = "set" -> MSet(m, v).map [] k = "del" -> MDel(m, v.name) [] OTHER -> m
        IN IF which = "hdr" THEN [@ EXCEPT !.hdr = m2] ELSE [@ EXCEPT !.clm = m2]]
  /\ UNCHANGED <<now, ops, rings, checkers, toks, nextId>>
\* verify / generate change only the error state (and a token slot)
Verify(c, err, msg) ==
  /\ checkers' = [checkers EXCEPT ![c].err = err, ![c].msg = msg]
  /\ UNCHANGED <<now, ops, rings, builders, toks, nextId>>
Generate(b, slot, g, err, msg) ==
  /\ builders' = [builders EXCEPT ![b].err = err, ![b].msg = msg]
  /\ toks' = IF slot \in SlotIds THEN [toks EXCEPT ![slot] = g] ELSE toks
  /\ UNCHANGED <<now, ops, rings, checkers, nextId>>
Forge(slot, td) == toks' = [toks EXCEPT ![slot] = [ret |-> "forged", td |-> td]] /\ UNCHANGED <<now, ops, rings, builders, checkers, nextId>>
CErrClear(c) == checkers' = [checkers EXCEPT ![c].err = 0, ![c].msg = 0] /\ UNCHANGED <<now, ops, rings, builders, toks, nextId>>
BErrClear(b) == builders' = [builders EXCEPT ![b].err = 0, ![b].msg = 0] /\ UNCHANGED <<now, ops, rings, checkers, toks, nextId>>
=============================================================================
