------------------------------- MODULE Tools -------------------------------
(* The command-line tools as small process machines (C20).                 *)
(*                                                                         *)
(* jwt-verify consumes its tokens one by one, counting failures; its exit  *)
(* status is zero iff none failed.  jwt-generate prints one token that     *)
(* jwt-verify accepts with the same key file.  key2jwk / jwk2key convert   *)
(* key files to JWK sets and back without changing the key.                *)
EXTENDS Naturals, Integers, Sequences, FiniteSets

\* ---- jwt-verify as a machine over a list of verdicts (TRUE = token verifies)
VARIABLES vtoks, pos, failed, status
tvars == <<vtoks, pos, failed, status>>

Running == -1
VInit(tokenlists) == vtoks \in tokenlists /\ pos = 1 /\ failed = 0 /\ status = Running
VStep == /\ status = Running /\ pos <= Len(vtoks)
         /\ failed' = IF vtoks[pos] THEN failed ELSE failed + 1
         /\ pos' = pos + 1 /\ UNCHANGED <<vtoks, status>>
\* the exit status is a relation: zero iff nothing failed, otherwise any of 1..255
VExit == /\ status = Running /\ pos = Len(vtoks) + 1
         /\ \E s \in 0..255 : (s = 0 <=> failed = 0) /\ status' = s
         /\ UNCHANGED <<vtoks, pos, failed>>
VNext == VStep \/ VExit
VSpec(tokenlists) == VInit(tokenlists) /\ [][VNext]_tvars

Exited == status # Running
\* C20, first sentence
ExitZeroIffAllVerified == Exited => ((status = 0) <=> (\A i \in 1..Len(vtoks) : vtoks[i]))
\* the counter counts exactly the failing tokens seen so far
CounterExact == failed = Cardinality({i \in 1..(pos - 1) : ~vtoks[i]})

=============================================================================
