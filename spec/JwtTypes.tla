----------------------------- MODULE JwtTypes -----------------------------
(* Algorithms, key families, strength floors, key pool.  Pure definitions; *)
(* no variables.  "~" is the universal "absent / NULL" marker (JSON null   *)
(* cannot pass through ndJsonDeserialize).                                 *)
EXTENDS Naturals, Sequences, FiniteSets

NONE == "~"

HSAlgs == {"HS256", "HS384", "HS512"}
RSAlgs == {"RS256", "RS384", "RS512"}
PSAlgs == {"PS256", "PS384", "PS512"}
ESAlgs == {"ES256", "ES384", "ES512", "ES256K"}
EdAlgs == {"EdDSA"}
RealAlgs == HSAlgs \cup RSAlgs \cup PSAlgs \cup ESAlgs \cup EdAlgs
\* the 16 values of jwt_alg_t by name ("none" = JWT_ALG_NONE, "INVAL" = JWT_ALG_INVAL)
EnumAlgs == RealAlgs \cup {"none", "INVAL"}

\* What jwt_str_alg is documented to do with a spelling: exact names only.
StrAlg(s) == IF s \in RealAlgs \cup {"none"} THEN s ELSE "INVAL"

\* Near misses of a name, none of them a name: its family prefix, one character more, and the name
\* followed by a NUL character and more text ("#0" in a descriptor stands for the character U+0000,
\* which the driver writes as the JSON escape \u0000) - a C string comparison would stop there.
AlgPrefix(a) == CASE a \in HSAlgs -> "HS" [] a \in RSAlgs -> "RS" [] a \in PSAlgs -> "PS" [] a \in ESAlgs -> "ES"
                  [] a \in EdAlgs -> "Ed" [] OTHER -> "non"
NearMiss(a) == {AlgPrefix(a), a \o "x", a \o "#0x", a \o "#0none", "none#0" \o a}

Family(a) == CASE a \in HSAlgs -> "oct"
               [] a \in RSAlgs \cup PSAlgs -> "RSA"
               [] a \in ESAlgs -> "EC"
               [] a \in EdAlgs -> "OKP"
               [] OTHER -> "nofamily"

HashBits(a) == CASE a \in {"HS256","RS256","PS256","ES256","ES256K"} -> 256
                 [] a \in {"HS384","RS384","PS384","ES384"} -> 384
                 [] a \in {"HS512","RS512","PS512","ES512"} -> 512
                 [] OTHER -> 0

\* A key descriptor k has kty, bits, crv.  FamilyOK / FloorOK are the
\* statements of C02 (family clause) and C09.
FamilyOK(a, k) == k.kty = Family(a)

CurveOK(a, k) == CASE a = "ES256"  -> k.crv = "P-256"  /\ k.bits = 256
                   [] a = "ES256K" -> k.crv = "secp256k1" /\ k.bits = 256
                   [] a = "ES384"  -> k.crv = "P-384"  /\ k.bits = 384
                   [] a = "ES512"  -> k.crv = "P-521"  /\ k.bits = 521
                   [] OTHER -> FALSE

\* C09 as stated: size only (ES256 and ES256K both ask for a 256-bit curve).
FloorOK(a, k) == CASE a \in HSAlgs -> k.bits >= HashBits(a)
                   [] a \in RSAlgs \cup PSAlgs -> k.bits >= 2048
                   [] a \in {"ES256", "ES256K"} -> k.bits = 256
                   [] a = "ES384" -> k.bits = 384
                   [] a = "ES512" -> k.bits = 521
                   [] a = "EdDSA" -> k.crv \in {"Ed25519", "Ed448"}
                   [] OTHER -> FALSE

\* ES signature width in bytes (r||s), RFC 7518 3.4
EsSigLen(a) == CASE a \in {"ES256","ES256K"} -> 64 [] a = "ES384" -> 96 [] a = "ES512" -> 132 [] OTHER -> 0

\* ------------------------------------------------------------------ keys
\* Fixture pool (harness/keys/<base>.pem); oct keys are synthesised by the
\* driver from (bits, var).
AsymBase == [
  rsa512a  |-> [kty |-> "RSA", bits |-> 512,  crv |-> NONE],
  rsa1024a |-> [kty |-> "RSA", bits |-> 1024, crv |-> NONE],
  rsa2040a |-> [kty |-> "RSA", bits |-> 2040, crv |-> NONE],
  rsa2047a |-> [kty |-> "RSA", bits |-> 2047, crv |-> NONE],
  rsa2048a |-> [kty |-> "RSA", bits |-> 2048, crv |-> NONE],
  rsa2048b |-> [kty |-> "RSA", bits |-> 2048, crv |-> NONE],
  rsa2052a |-> [kty |-> "RSA", bits |-> 2052, crv |-> NONE],
  rsa2056a |-> [kty |-> "RSA", bits |-> 2056, crv |-> NONE],
  rsa3072a |-> [kty |-> "RSA", bits |-> 3072, crv |-> NONE],
  rsa3072b |-> [kty |-> "RSA", bits |-> 3072, crv |-> NONE],
  rsa4096a |-> [kty |-> "RSA", bits |-> 4096, crv |-> NONE],
  p256a |-> [kty |-> "EC", bits |-> 256, crv |-> "P-256"],
  p256b |-> [kty |-> "EC", bits |-> 256, crv |-> "P-256"],
  p384a |-> [kty |-> "EC", bits |-> 384, crv |-> "P-384"],
  p384b |-> [kty |-> "EC", bits |-> 384, crv |-> "P-384"],
  p521a |-> [kty |-> "EC", bits |-> 521, crv |-> "P-521"],
  p521b |-> [kty |-> "EC", bits |-> 521, crv |-> "P-521"],
  k256a |-> [kty |-> "EC", bits |-> 256, crv |-> "secp256k1"],
  k256b |-> [kty |-> "EC", bits |-> 256, crv |-> "secp256k1"],
  ed25519a |-> [kty |-> "OKP", bits |-> 256, crv |-> "Ed25519"],
  ed25519b |-> [kty |-> "OKP", bits |-> 256, crv |-> "Ed25519"],
  ed448a |-> [kty |-> "OKP", bits |-> 456, crv |-> "Ed448"],
  ed448b |-> [kty |-> "OKP", bits |-> 456, crv |-> "Ed448"],
  \* OKP keys whose x or d (octet strings, not integers) begins with a zero octet
  ed25519zx |-> [kty |-> "OKP", bits |-> 256, crv |-> "Ed25519"], ed25519zd |-> [kty |-> "OKP", bits |-> 256, crv |-> "Ed25519"],
  ed448zx |-> [kty |-> "OKP", bits |-> 456, crv |-> "Ed448"], ed448zd |-> [kty |-> "OKP", bits |-> 456, crv |-> "Ed448"],
  \* curves that are not JOSE curves but that OpenSSL knows by name (sizes 224, 256, 384, 512)
  bp256a |-> [kty |-> "EC", bits |-> 256, crv |-> "brainpoolP256r1"], bp384a |-> [kty |-> "EC", bits |-> 384, crv |-> "brainpoolP384r1"],
  bp512a |-> [kty |-> "EC", bits |-> 512, crv |-> "brainpoolP512r1"], p224a |-> [kty |-> "EC", bits |-> 224, crv |-> "secp224r1"],
  \* EC keys whose x, y or d has a leading zero byte (fixed-width encodings matter)
  p256zx |-> [kty |-> "EC", bits |-> 256, crv |-> "P-256"], p256zy |-> [kty |-> "EC", bits |-> 256, crv |-> "P-256"],
  p256zd |-> [kty |-> "EC", bits |-> 256, crv |-> "P-256"],
  p384zx |-> [kty |-> "EC", bits |-> 384, crv |-> "P-384"], p384zy |-> [kty |-> "EC", bits |-> 384, crv |-> "P-384"],
  p384zd |-> [kty |-> "EC", bits |-> 384, crv |-> "P-384"],
  p521zx |-> [kty |-> "EC", bits |-> 521, crv |-> "P-521"], p521zy |-> [kty |-> "EC", bits |-> 521, crv |-> "P-521"],
  p521zd |-> [kty |-> "EC", bits |-> 521, crv |-> "P-521"],
  k256zx |-> [kty |-> "EC", bits |-> 256, crv |-> "secp256k1"], k256zy |-> [kty |-> "EC", bits |-> 256, crv |-> "secp256k1"],
  k256zd |-> [kty |-> "EC", bits |-> 256, crv |-> "secp256k1"] ]

\* A key descriptor: what the driver is asked to export as a JWK.
\*   base/bits/var identify the material; priv: 1 = private form; alg, kid,
\*   use: attribute strings or "~"; ops: sequence of key_ops strings;
\*   defect: <<>> for a well-formed JWK, otherwise a list of <<member, class>>
\*   defects the driver applies to the exported JWK; bad = 1 iff defective.
WithDefect(k, member, cls) == [k EXCEPT !.defect = <<<<member, cls>>>>, !.bad = 1]
\* fixture keys whose key FILE is of the restricted type id-RSASSA-PSS (same numbers as an RSA key; the type is
\* part of the key: key2jwk states it as "alg":"PS256", jwk2key must write it back).  Kept apart from AsymBase:
\* the JWK-import matrices enumerate DOMAIN AsymBase and a JWK has no such type.
\* (rsa2048z: an rsaEncryption key whose private exponent is one octet shorter than the modulus - for the tools)
ExtraBase == [ rsapss2048a |-> [kty |-> "RSA", bits |-> 2048, crv |-> NONE], rsa2048z |-> [kty |-> "RSA", bits |-> 2048, crv |-> NONE],
               rsa2048e |-> [kty |-> "RSA", bits |-> 2048, crv |-> NONE],      \* public exponent of 72 bits
               rsa9216a |-> [kty |-> "RSA", bits |-> 9216, crv |-> NONE] ]     \* larger than any size a provider may have thought of
PssBases == {"rsapss2048a"}
BaseRec(b) == IF b \in DOMAIN ExtraBase THEN ExtraBase[b] ELSE AsymBase[b]
AsymKey(base, priv, alg, kid) ==
  [base |-> base, kty |-> BaseRec(base).kty, bits |-> BaseRec(base).bits,
   crv |-> BaseRec(base).crv, var |-> "a", priv |-> priv, alg |-> alg, kid |-> kid,
   use |-> NONE, ops |-> <<>>, defect |-> <<>>, bad |-> 0]

OctKey(bytes, var, alg, kid) ==
  [base |-> "oct", kty |-> "oct", bits |-> 8 * bytes, crv |-> NONE, var |-> var,
   priv |-> 1, alg |-> alg, kid |-> kid, use |-> NONE, ops |-> <<>>, defect |-> <<>>, bad |-> 0]

\* same key material?
SameMat(k1, k2) == k1.base = k2.base /\ k1.bits = k2.bits /\ k1.var = k2.var

\* The alg attribute as the library must understand it: a JWK "alg" member
\* that is not an algorithm name denotes JWT_ALG_INVAL.
KeyAlg(k) == IF k.alg = NONE THEN "none" ELSE StrAlg(k.alg)

NoKey == [base |-> NONE]
IsKey(k) == k.base # NONE
=============================================================================
