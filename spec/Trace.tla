------------------------------- MODULE Trace -------------------------------
(***************************************************************************)
(* Trace validation.  The trace (ndjson, one event per library call, as    *)
(* written by harness/jwtdrv.c) is replayed through the actions of         *)
(* LibJWT.tla: the logged arguments and results instantiate the actions,   *)
(* the abstract state evolves, and for every event the clauses of the      *)
(* selected property (environment variable PROP, "FULL" = everything) are  *)
(* evaluated on (pre-state, arguments, results).  A failed clause is       *)
(* recorded in `viol` and the rest of that case is skipped, so one bad     *)
(* case neither hides nor poisons the others.  The behaviour is linear:    *)
(* exactly one successor per state.                                        *)
(***************************************************************************)
EXTENDS LibJWT, Base64, Json, IOUtils

Prop == IOEnv.PROP
T == ndJsonDeserialize(IOEnv.TRACE)
N == Len(T)

VARIABLES l, viol, skipping, curcase, memo, cnt, fault
tvars == <<l, viol, skipping, curcase, memo, cnt, fault>>
\* fault = [on, opi, base]: C17 fault-injection runs are compared, operation by
\* operation, with the fault-free run of the same case (base)

On(p) == Prop = p \/ Prop = "FULL"
F(ok, name) == IF ok THEN {} ELSE {name}
Min(a, b) == IF a < b THEN a ELSE b
Has(e, f) == f \in DOMAIN e

(***************************************************************************)
(* Keyring events                                                          *)
(***************************************************************************)
OldItems(r) == IF rings[r].live THEN rings[r].items ELSE <<>>
NewItemsOf(e) ==
  [i \in 1..Len(e.new) |->
     [id |-> e.new[i].id,
      kd |-> IF i <= Len(e.keys) THEN e.keys[i] ELSE [base |-> "?", bad |-> 1, kid |-> NONE],
      err |-> e.new[i].err, kid |-> e.new[i].kid]]

LoadFails(e) ==
  LET old == OldItems(e.ring)
      nnew == Len(e.new)
      nk == Len(e.keys)
      m == Min(nnew, nk)
  IN
  (IF On("C07") THEN
        F(e.doc = "nonjson" => (e.seterr = 1 /\ nnew = 0), "C07.nonjson")
        \cup F(e.doc \in {"keys", "keysextra", "single", "toparray", "jsonother"} => nnew = DocItemCount(e.doc, nk), "C07.count")
        \cup F(\A i \in 1..nnew : P_C07item(e.new[i]), "C07.item")
        \* "allbad": a document none of whose keys can be imported (whatever else it is): refused as a whole or item by item
        \cup F(e.doc = "allbad" => (e.seterr = 1 \/ \A i \in 1..nnew : e.new[i].err = 1), "C07.allbad")
        \cup F(e.doc \in {"keys", "keysextra", "single"} =>
                 \A i \in 1..m : (e.keys[i].bad = 0 /\ e.keys[i].kid # NONE) => e.new[i].kid = e.keys[i].kid, "C07.order")
   ELSE {})
  \cup (IF On("C08") THEN
        F(e.doc \in {"keys", "keysextra", "single"} =>
            \A i \in 1..m : e.keys[i].bad = 0 => P_C08item(e.new[i], e.keys[i]), "C08.item")
        ELSE {})
  \cup (IF On("C11") THEN F(e.doc = "allbad" => (e.seterr = 1 \/ \A i \in 1..nnew : e.new[i].err = 1), "C11.member") ELSE {})
  \cup (IF On("C14") THEN F(\A i \in 1..nnew : e.new[i].err = 1 => e.new[i].msg = 1, "C14.itemmsg") ELSE {})
  \cup (IF On("C16") THEN
        F(e.retnull = 0 => e.ids = Ids(old) \o [i \in 1..nnew |-> nextId + i - 1], "C16.append")
        \* ... one item per element of the document, whatever state the keyring was in (an earlier failed load included)
        \* (a load that met an allocation fault may leave items out - C17 judges that; the list it leaves is still a list)
        \cup F((e.retnull = 0 /\ ~Has(e, "fault_site") /\ e.doc \in {"keys", "keysextra", "single", "toparray", "jsonother"}) => nnew = DocItemCount(e.doc, nk), "C16.append-all")
        \cup F(e.retnull = 0 => e.count = Len(old) + nnew, "C16.count")
        \cup F(e.retnull = 0 => e.errany = e.seterr + BadCount(old) + Cardinality({i \in 1..nnew : e.new[i].err = 1}), "C16.errany")
        ELSE {})

\* indexes beyond 32 bits travel as hi * 2^32 + index (TLC integers are 32-bit): any hi > 0 is out of range
OutOfRange(e, items) == (Has(e, "hi") /\ e.hi > 0) \/ e.index >= Len(items)
RingFails(e) ==
  LET items == OldItems(e.ring) IN
  IF ~On("C16") THEN {}
  ELSE CASE e.e = "ItemGet" -> F(e.id = (IF ~OutOfRange(e, items) THEN items[e.index + 1].id ELSE -1), "C16.get")
         [] e.e = "Count" -> F(e.ret = Len(items), "C16.count")
         [] e.e = "Find" -> F(e.id = FindByKid(items, e.kid), "C16.find")
         [] e.e = "ItemFree" ->
              F(e.ret = (IF ~OutOfRange(e, items) THEN 1 ELSE 0), "C16.free.ret")
              \cup F(e.ids = Ids(IF ~OutOfRange(e, items) THEN SeqRemoveAt(items, e.index + 1) ELSE items), "C16.free.list")
              \cup F(e.count = Len(e.ids), "C16.free.count")
         [] e.e = "FreeBad" ->
              F(e.ret = BadCount(items), "C16.freebad.ret")
              \cup F(e.ids = Ids(GoodOnly(items)), "C16.freebad.list")
              \cup F(e.count = Len(e.ids), "C16.freebad.count")
         [] e.e = "FreeAll" ->
              F(e.ret = Len(items), "C16.freeall.ret") \cup F(e.ids = <<>> /\ e.count = 0, "C16.freeall.list")
         [] e.e = "ErrAny" ->
              F(e.ret = (IF rings[e.ring].err THEN 1 ELSE 0) + BadCount(items), "C16.errany")
         [] OTHER -> {}

(***************************************************************************)
(* Map events (builder) and callback steps (jwt_t)                         *)
(***************************************************************************)
\* one set/get/del with logged results x on map m; returns failed clauses
MapStepFails(m, k, v, x, tag) ==
  CASE k = "set" ->
         LET r == MSet(m, v) IN
         (IF On("C15") THEN F(r.err = ANY \/ x.ret = r.err \/ ("erralt" \in DOMAIN r /\ x.ret = r.erralt), tag \o ".set.ret") ELSE {})
         \cup (IF On("C14") THEN F(x.ret = x.verr, "C14.verr") ELSE {})
    [] k = "get" ->
         LET r == MGet(m, v) IN
         (IF On("C15") THEN
             F(r.err = ANY \/ x.ret = r.err, tag \o ".get.ret")
             \cup F((r.err = "NONE" /\ x.ret = "NONE") =>
                      IF r.got[1] = "wholemap" THEN MapOfList(x.gotmap) = m ELSE x.got = r.got, tag \o ".get.val")
          ELSE {})
         \cup (IF On("C14") THEN F(x.ret = x.verr, "C14.verr") ELSE {})
    [] k = "del" -> (IF On("C15") THEN F(x.ret = "NONE", tag \o ".del.ret") ELSE {})
    [] OTHER -> {}
MapAfter(m, k, v) == CASE k = "set" -> MSet(m, v) [] k = "del" -> [err |-> "NONE", map |-> MDel(m, v.name)] [] OTHER -> [err |-> "NONE", map |-> m]

BMapFails(e) ==
  LET b == builders[e.b]
      m == IF e.which = "hdr" THEN b.hdr ELSE b.clm
      r == MapAfter(m, e.k, e.v)
      hdr2 == IF e.which = "hdr" THEN r.map ELSE b.hdr
      clm2 == IF e.which = "hdr" THEN b.clm ELSE r.map
      \* where the specification allows a second outcome (r.alt), either is accepted
      ra == IF "alt" \in DOMAIN r THEN r.alt ELSE r.map
      hdr3 == IF e.which = "hdr" THEN ra ELSE b.hdr
      clm3 == IF e.which = "hdr" THEN b.clm ELSE ra
  IN MapStepFails(m, e.k, e.v, e, "C15")
     \cup (IF On("C15") /\ r.err # ANY /\ Has(e, "hdr")
           THEN F((MapOfList(e.hdr) = hdr2 /\ MapOfList(e.clm) = clm2) \/ (MapOfList(e.hdr) = hdr3 /\ MapOfList(e.clm) = clm3), "C15.mapafter") ELSE {})

\* callback program steps against their logged results (C15 on jwt_t)
RECURSIVE CbFails(_, _, _, _)
CbFails(st, prog, res, i) ==
  IF i > Len(prog) \/ i > Len(res) THEN {}
  ELSE LET s == prog[i] x == res[i] IN
       IF s.k \in {"set", "get", "del"} THEN
            LET m == IF s.which = "hdr" THEN st.hdr ELSE st.clm
                r == MapAfter(m, s.k, s.v)
                st2 == IF r.err = ANY THEN st
                       ELSE IF s.which = "hdr" THEN [st EXCEPT !.hdr = r.map] ELSE [st EXCEPT !.clm = r.map]
                f == MapStepFails(m, s.k, s.v, x, "C15.jwt")
                     \cup (IF On("C15") /\ r.err # ANY /\ Has(x, "hdr")
                           THEN F(MapOfList(x.hdr) = st2.hdr /\ MapOfList(x.clm) = st2.clm, "C15.jwt.mapafter") ELSE {})
            IN IF f # {} \/ r.err = ANY THEN f ELSE CbFails(st2, prog, res, i + 1)
       ELSE CbFails(CbStep(st, s, rings), prog, res, i + 1)

(***************************************************************************)
(* verify                                                                  *)
(***************************************************************************)
\* normalise an observed generate result (top-level event or its "fresh" twin)
GObs(x) ==
  IF x.ret = "tok"
  THEN [ret |-> "tok", wf |-> (x.dots = 2 /\ x.pad = 0 /\ x.urlsafe = 1 /\ x.canon = 1),
        talg |-> x.talg, hdr |-> MapOfList(x.thdr), clm |-> MapOfList(x.tclm),
        sigEmpty |-> (x.tsiglen = 0), validby |-> Range(x.validby),
        threst |-> x.threst, tcrest |-> x.tcrest, thsmall |-> MapOfList(x.thsmall), tcsmall |-> MapOfList(x.tcsmall)]
  ELSE NullG

\* C05: the token carries what the builder was given (digest of everything but
\* the library's own members) plus the members the library adds
C05GenFails(e, b) ==
  IF ~(Has(e, "given_hrest") /\ e.ret = "tok") THEN {}
  ELSE LET hs == MapOfList(e.thsmall) cs == MapOfList(e.tcsmall) ref == GenRef(b, now, rings, ops) IN
       F(e.threst = e.given_hrest /\ e.tcrest = e.given_crest, "C05.token-content")
       \cup F(ref.ret = "tok" =>
              /\ "alg" \in DOMAIN hs /\ hs["alg"] = <<"str", ref.alg, W0>>
              /\ (ref.alg # "none" => "typ" \in DOMAIN hs)
              /\ (b.iat => "iat" \in DOMAIN cs /\ cs["iat"] = <<"int", "", now>>)
              /\ (b.expOn => "exp" \in DOMAIN cs /\ cs["exp"] = <<"int", "", WAdd(now, b.expOff)>>)
              /\ (b.nbfOn => "nbf" \in DOMAIN cs /\ cs["nbf"] = <<"int", "", WAdd(now, b.nbfOff)>>)
              \* a time claim the library does NOT add is the application's: the token carries what the builder was given
              /\ (~b.iat /\ "iat" \in DOMAIN b.clm => "iat" \in DOMAIN cs /\ cs["iat"] = b.clm["iat"])
              /\ (~b.expOn /\ "exp" \in DOMAIN b.clm => "exp" \in DOMAIN cs /\ cs["exp"] = b.clm["exp"])
              /\ (~b.nbfOn /\ "nbf" \in DOMAIN b.clm => "nbf" \in DOMAIN cs /\ cs["nbf"] = b.clm["nbf"])
              \* ... and a time claim nobody asked for is not there (an offset of 0 or less switches the claim off)
              /\ (~b.iat /\ "iat" \notin DOMAIN b.clm => "iat" \notin DOMAIN cs)
              /\ (~b.expOn /\ "exp" \notin DOMAIN b.clm => "exp" \notin DOMAIN cs)
              /\ (~b.nbfOn /\ "nbf" \notin DOMAIN b.clm => "nbf" \notin DOMAIN cs), "C05.added-members")
\* C05: what the checker callback reads is what the token carries
C05ReadFails(e) ==
  IF ~(e.tok.src = "slot" /\ Has(e, "cbres") /\ Len(e.cbres) > 0) THEN {}
  ELSE LET rd == e.cbres[1] g == toks[e.tok.slot] IN
       IF ~(rd.k = "read" /\ g.ret = "tok" /\ Has(g, "threst")) THEN {}
       ELSE F(rd.hrest = g.threst /\ rd.crest = g.tcrest
              /\ MapOfList(rd.hsmall) = g.thsmall /\ MapOfList(rd.csmall) = g.tcsmall, "C05.read")

ParseTok(td) == ParseTokIn(toks, td)
SigOK(td, item) == SigOKIn(toks, td, item)

VerifyFails(e) ==
  LET ck == checkers[e.c]
      pt == ParseTok(e.tok)
      cb == VerifyCfg(ck, pt, rings)
      sok == SigOK(e.tok, cb.cfg.key)
      ref == VerifyRef(ck, pt, cb, sok, now, ops)
  IN
  (IF On("C01") THEN F(P_C01(pt, cb, sok, e.ret), "C01.sig") ELSE {})
  \cup (IF On("C02") THEN F(P_C02(pt, cb, e.ret), "C02.verify") ELSE {})
  \cup (IF On("C03") THEN F(P_C03(pt, cb, e.ret), "C03.verify") ELSE {})
  \cup (IF On("C04") THEN F(P_C04(ck, pt, cb, sok, now, ops, e.ret), "C04.claims") ELSE {})
  \cup (IF On("C05") /\ e.tok.src = "slot" THEN F(ref = "accept" => e.ret = 0, "C05.verify") \cup C05ReadFails(e) ELSE {})
  \cup (IF On("C06") THEN F(P_C06(pt, e.ret), "C06.reject") ELSE {})
  \cup (IF On("C11") THEN F(P_FullV(ref, e.ret), "C11.token") ELSE {})       \* the codec as the token parser uses it
  \cup (IF On("C09") THEN F(P_C09(ck, pt, cb, sok, now, ops, e.ret), "C09.verify") ELSE {})
  \cup (IF On("C13") /\ Has(e, "fresh") THEN F((e.ret = 0) <=> (e.fresh.ret = 0), "C13.verify") ELSE {})
  \cup (IF On("C13") THEN F(P_FullV(ref, e.ret), "C13.function") ELSE {})      \* the verdict is THE function of configuration, token and clock
  \cup (IF On("C14") THEN F(P_C14v(e.ret, e.err, e.msg), "C14.verify") ELSE {})
  \cup (IF On("C19") THEN
          F(cb.ret # 0 => e.ret # 0, "C19.cbret")
          \* (a verify that met an allocation fault may refuse what it would accept; it never accepts what it would refuse)
          \cup (IF Has(e, "nocbres") THEN F((pt.status = "ok" /\ ck.hascb /\ cb.ret = 0 /\ ~cb.touched) =>
                                             (IF Has(e, "fault_site") THEN (e.ret = 0 => e.nocbres.ret = 0)
                                              ELSE ((e.ret = 0) <=> (e.nocbres.ret = 0))), "C19.verdict") ELSE {})
          \cup F((pt.status = "ok" /\ cb.ret = 0 /\ AdmitDefined(cb.cfg.alg, cb.cfg.key) /\ ~Admit("checker", cb.cfg.alg, cb.cfg.key)) => e.ret # 0, "C19.admit")
        ELSE {})
  \cup (IF On("C12") /\ Has(e, "cmp") /\ e.cmp \in DOMAIN memo THEN F((memo[e.cmp] = 0) <=> (e.ret = 0), "C12.verdict") ELSE {})
  \cup (IF On("C12") /\ e.tok.src = "slot" THEN F(ref = "accept" => e.ret = 0, "C12.accept") ELSE {})      \* each accepts the other's signatures
  \cup (IF On("C15") /\ ck.hascb /\ Has(e, "cbres") /\ pt.status = "ok"
        THEN CbFails([hdr |-> pt.hdr, clm |-> pt.clm, cfg |-> [alg |-> ck.alg, key |-> ck.key], ret |-> 0, touched |-> FALSE], ck.cb, e.cbres, 1)
        ELSE {})
  \cup (IF Prop = "FULL" THEN F(P_FullV(ref, e.ret), "FULL.verify") ELSE {})

(***************************************************************************)
(* generate                                                                *)
(***************************************************************************)
GenerateFails(e) ==
  LET b == builders[e.b]
      ref == GenRef(b, now, rings, ops)
      g == GObs(e)
  IN
  (IF On("C10") /\ ~(Has(e, "lite") /\ e.lite = 1)      \* "lite" generate events carry digests instead of maps (C05/C06 volume stages)
        THEN F(P_C10(b, now, rings, ops, g, MapOfList(e.hdr_after), MapOfList(e.clm_after)), "C10.token")
                     \cup F(P_GenSig(b, now, rings, ops, g), "C10.sig") ELSE {})
  \cup (IF On("C03") THEN F(P_C03g(b, now, rings, g), "C03.generate") ELSE {})
  \cup (IF On("C02") THEN F(P_C02g(b, now, rings, g), "C02.generate") ELSE {})
  \cup (IF On("C09") THEN F(P_C09g(b, now, rings, ops, g), "C09.generate") ELSE {})
  \cup (IF On("C05") THEN F(P_GenSig(b, now, rings, ops, g), "C05.sig") \cup C05GenFails(e, b)
                          \* (a generate that met an allocation fault may return NULL: C05 speaks about the tokens that ARE returned)
                          \cup F((ref.ret = "tok" /\ ~Has(e, "fault_site")) => e.ret = "tok", "C05.generate") ELSE {})
  \cup (IF On("C14") THEN F(P_C14g(e.ret, e.err, e.msg), "C14.generate") ELSE {})
  \cup (IF On("C13") /\ Has(e, "fresh") THEN
          F(e.ret = e.fresh.ret, "C13.generate.ret")
          \cup F((e.ret = "tok" /\ e.fresh.ret = "tok") =>
                   /\ e.thdr = e.fresh.thdr /\ e.tclm = e.fresh.tclm /\ e.talg = e.fresh.talg
                   /\ (e.talg \in HSAlgs \cup RSAlgs \cup EdAlgs \cup {"none"} => e.tokdig = e.fresh.tokdig), "C13.generate.tok")
        ELSE {})
  \* as for verify: whether a token comes out is THE function of configuration and clock the specification computes
  \* (state a fresh builder in the same process shares is hidden state too)
  \cup (IF On("C13") THEN F((ref.ret = ANY) \/ ((ref.ret = "tok") <=> (e.ret = "tok")), "C13.genfunction") ELSE {})
  \cup (IF On("C12") THEN F(P_GenSig(b, now, rings, ops, g), "C12.gensig") ELSE {})        \* the token carries the CURRENT key's signature
  \cup (IF On("C12") /\ Has(e, "cmp") /\ e.cmp \in DOMAIN memo THEN F(memo[e.cmp] = (IF e.ret = "tok" THEN e.tokdig ELSE "null"), "C12.token") ELSE {})
  \cup (IF On("C15") /\ b.hascb /\ Has(e, "cbres")
        THEN CbFails([hdr |-> b.hdr, clm |-> GenClaims(b, now), cfg |-> GenCfg0(b), ret |-> 0, touched |-> FALSE], b.cb, e.cbres, 1)
        ELSE {})
  \* the builder's maps hold what was stored on the BUILDER: operations on the token object (by the callback, or the
  \* library's own iat/nbf/exp stamps) do not show through
  \cup (IF On("C15") /\ Has(e, "hdr_after") /\ ~(Has(e, "lite") /\ e.lite = 1)
        THEN F(MapOfList(e.hdr_after) = b.hdr /\ MapOfList(e.clm_after) = b.clm, "C15.builder-after-generate") ELSE {})
  \cup (IF Prop = "FULL" THEN F(ref.ret = ANY \/ ref.ret = e.ret, "FULL.generate") ELSE {})

(***************************************************************************)
(* configuration events                                                    *)
(***************************************************************************)
SetKeyFails(e, side) ==
  LET key == ItemAt(rings, e.ring, e.key) IN
  (IF On("C02") THEN F((AdmitDefined(e.alg, key) /\ ~Admit(side, e.alg, key)) => e.ret # 0, "C02.setkey") ELSE {})
  \cup (IF On("C10") /\ side = "builder" THEN F((key.id # -1 /\ key.kd.priv = 0) => e.ret # 0, "C10.pubkey") ELSE {})
  \cup (IF Prop = "FULL" THEN F((AdmitDefined(e.alg, key) /\ (key.id = -1 \/ key.err = 0)) => (Admit(side, e.alg, key) <=> e.ret = 0), "FULL.setkey") ELSE {})

ConfigFails(e) ==
  CASE e.e = "CSetKey" -> SetKeyFails(e, "checker")
    [] e.e = "BSetKey" -> SetKeyFails(e, "builder")
    [] e.e = "CLeeway" -> IF Prop = "FULL" THEN F(e.ret = (IF LeewayValid(e.claim) THEN 0 ELSE 1), "FULL.leeway") ELSE {}
    [] e.e = "BOffset" -> IF Prop = "FULL" THEN F(e.ret = (IF e.claim \in {"exp", "nbf"} THEN 0 ELSE 1), "FULL.offset") ELSE {}
    [] e.e = "CClaimSet" -> IF Prop = "FULL" THEN F((e.ret = 0) <=> (ClaimSetRet(e.claim, e.val) = 0), "FULL.claimset") ELSE {}
    [] e.e = "CClaimDel" -> IF Prop = "FULL" THEN F((e.ret = 0) <=> StrClaim(e.claim), "FULL.claimdel") ELSE {}
    [] e.e = "CClaimGet" -> IF Prop = "FULL" THEN
                               F(e.val = (IF StrClaim(e.claim) /\ e.claim \in DOMAIN checkers[e.c].expect THEN checkers[e.c].expect[e.claim] ELSE NONE), "FULL.claimget") ELSE {}
    [] e.e = "BIat" -> IF Prop = "FULL" \/ Prop = "C10" THEN F(e.ret = (IF builders[e.b].iat THEN 1 ELSE 0), "C10.iat.ret") ELSE {}
    [] e.e \in {"CSetCb", "BSetCb"} ->
         IF Prop \notin {"FULL", "C03"} THEN {}
         ELSE IF Has(e, "ctxonly")
              THEN F((e.ret = 0) <=> (SetCbCtxRet(IF e.e = "CSetCb" THEN checkers[e.c] ELSE builders[e.b]) = 0), Prop \o ".setcbctx")
              ELSE F(e.ret = 0, Prop \o ".setcb")
    [] e.e \in {"CErrClear", "BErrClear"} -> IF On("C14") THEN F(e.err = 0 /\ e.msg = 0, "C14.errclear") ELSE {}
    [] e.e = "OpsThread" -> IF On("C12") THEN
                              LET exp == IF e.name = NONE THEN ops ELSE OpsAfterSet(ops, e.name) IN
                              F(e.seen = exp /\ e.cur = exp /\ (e.name # NONE => e.ret = OpsSetRet(e.name)), "C12.thread") ELSE {}
    [] e.e = "Ops" -> IF On("C12") THEN F(e.ret = OpsSetRet(e.name) /\ e.cur = OpsAfterSet(ops, e.name) /\ e.jwk = 1, "C12.setops") ELSE {}
    [] e.e = "OpsT" -> IF On("C12") THEN F(e.ret = OpsSetTRet(e.id) /\ e.cur = OpsAfterSetT(ops, e.id) /\ e.jwk = 1, "C12.setopst") ELSE {}
    [] e.e = "OpsEnv" -> IF On("C12") THEN F(e.cur = (IF e.env \in Providers THEN e.env ELSE "openssl"), "C12.env") ELSE {}
    [] e.e = "BNew" -> IF On("C15") THEN F(e.ok = 1 => (e.hdr = <<>> /\ e.clm = <<>>), "C15.new") ELSE {}
    [] OTHER -> {}

(***************************************************************************)
(* codec (C11)                                                             *)
(***************************************************************************)
CodecFails(e) ==
  IF ~On("C11") THEN {}
  ELSE IF e.dir = "enc" THEN
         \* e.bytes: input byte values, e.chars: output character codes
         F(e.isnull = 0 /\ e.chars = B64Enc(e.bytes), "C11.enc")
  ELSE   \* dec: e.chars is the input, e.bytes the output
         LET r == B64Dec(e.chars) IN
         F(r.any \/ (IF r.ok THEN e.isnull = 0 /\ e.ret = Len(r.bytes) /\ e.bytes = r.bytes ELSE e.isnull = 1), "C11.dec")

\* batched codec calls: the inputs are regenerated from the descriptor
Pow(b, n) == b ^ n
Suffix(e) == IF Has(e, "suffix") THEN e.suffix ELSE <<>>
BatchIn(e, i) ==
  LET rem == e.len - Len(e.prefix) - Len(Suffix(e))
      base == IF e.dir = "enc" THEN 256 ELSE Len(e.alpha)
      digit(k) == ((i - 1) \div Pow(base, rem - k)) % base
  IN e.prefix \o [k \in 1..rem |-> IF e.dir = "enc" THEN digit(k) ELSE e.alpha[digit(k) + 1]] \o Suffix(e)
CodecBatchFails(e) ==
  IF ~On("C11") THEN {}
  ELSE LET rem == e.len - Len(e.prefix) - Len(Suffix(e))
           n == Pow(IF e.dir = "enc" THEN 256 ELSE Len(e.alpha), rem)
       IN F(Len(e.outs) = n /\ Len(e.rets) = n /\ Len(e.nulls) = n, "C11.batch.count")
          \cup (IF Len(e.outs) # n \/ Len(e.rets) # n \/ Len(e.nulls) # n THEN {}
                ELSE IF e.dir = "enc"
                THEN F(\A i \in 1..n : LET x == B64Enc(BatchIn(e, i)) IN
                          e.nulls[i] = 0 /\ e.outs[i] = x, "C11.enc")
                ELSE F(\A i \in 1..n : LET r == B64Dec(BatchIn(e, i)) IN
                          r.any \/ (IF r.ok THEN e.nulls[i] = 0 /\ e.rets[i] = Len(r.bytes) /\ e.outs[i] = r.bytes
                                    ELSE e.nulls[i] = 1), "C11.dec"))

(***************************************************************************)
(* allocation faults (C17): result of an operation in a run with one       *)
(* failing allocation vs the same operation in the fault-free run          *)
(***************************************************************************)
\* an item imported under a fault is the item imported without it: flags, metadata and the projected key material
\* (PEM present and parseable, public and private components equal to the key that was exported)
ErrFlags(items) == [i \in DOMAIN items |-> <<items[i].err, items[i].kid, items[i].kty, items[i].bits, items[i].alg, items[i].priv,
                                              IF items[i].err = 0 THEN items[i].mat ELSE <<>> >>]
SameRes(e, b) ==
  CASE e.e = "Load" -> e.retnull = b.retnull /\ (e.retnull = 0 => (e.seterr = b.seterr /\ e.count = b.count /\ ErrFlags(e.new) = ErrFlags(b.new)))
    [] e.e \in {"CNew", "BNew"} -> e.ok = b.ok
    [] e.e \in {"CSetKey", "BSetKey", "CLeeway", "BOffset", "CClaimSet", "CClaimDel", "CSetCb", "BSetCb", "BIat", "Ops", "OpsT"} -> e.ret = b.ret
    [] e.e = "BMap" -> e.ret = b.ret /\ (Has(e, "got") => e.got = b.got /\ e.gotmap = b.gotmap) /\ (Has(e, "hdr") => e.hdr = b.hdr /\ e.clm = b.clm)
    [] e.e = "Verify" -> (e.ret = 0) <=> (b.ret = 0)
    [] e.e = "Generate" -> e.ret = b.ret /\ (e.ret = "tok" =>
                              /\ e.thdr = b.thdr /\ e.tclm = b.tclm /\ e.talg = b.talg /\ e.dots = b.dots /\ e.canon = b.canon
                              /\ (e.validby = <<>>) = (b.validby = <<>>) /\ (e.tsiglen = 0) = (b.tsiglen = 0))
    [] e.e \in {"ItemFree", "FreeBad", "FreeAll"} -> e.ret = b.ret /\ e.count = b.count
    [] e.e \in {"ItemGet", "Find"} -> (e.id = -1) = (b.id = -1)
    [] e.e \in {"Count", "ErrAny"} -> e.ret = b.ret
    [] OTHER -> TRUE
\* the documented failure channel of each call
FailedThroughChannel(e) ==
  CASE e.e = "Load" -> e.retnull = 1 \/ e.seterr = 1 \/ \E i \in DOMAIN e.new : e.new[i].err = 1
    [] e.e \in {"CNew", "BNew"} -> e.ok = 0
    [] e.e \in {"CSetKey", "BSetKey", "CLeeway", "BOffset", "CClaimSet", "CClaimDel", "CSetCb", "BSetCb"} -> e.ret # 0
    [] e.e = "BMap" -> e.ret \in {"NOMEM", "INVALID"}
    [] e.e = "Verify" -> e.ret # 0
    [] e.e = "Generate" -> e.ret = "null"
    [] OTHER -> FALSE
\* After a configuration call that met the fault, the rest of the case runs without faults ("post" = script index of
\* that call).  A failed setter leaves the object with its old or its new configuration - or with something
\* stricter; what it must not leave is a checker that accepts a token which neither accepts ("never accepts a token
\* it would otherwise reject"): base = the fault-free run (new configuration), skips[post] = the run without that
\* call (old one).  What a builder holds after a refused set is not stated (a replacing set that fails has removed
\* the member: the named deviation of MSet), so tokens generated afterwards are not judged here.
NoFault == [on |-> FALSE, opi |-> 0, base |-> <<>>, skipidx |-> 0, skips |-> [k \in {} |-> <<>>]]
PostFails(e) ==
  LET q == fault.opi + 1
      b == fault.base[q]
      hasSk == e.post \in DOMAIN fault.skips /\ q - 1 >= 1 /\ q - 1 <= Len(fault.skips[e.post])
      sk == fault.skips[e.post][q - 1]
  IN IF q > Len(fault.base) \/ e.e # b.e THEN {}
     ELSE CASE e.e = "Verify" -> F(e.ret = 0 => (b.ret = 0 \/ (hasSk /\ sk.e = "Verify" /\ sk.ret = 0)), "C17.state-after-failure")
            [] OTHER -> {}
FaultFails(e) ==
  IF ~fault.on \/ ~On("C17") THEN {}
  ELSE IF Has(e, "post") THEN PostFails(e)
  ELSE IF fault.opi + 1 > Len(fault.base) THEN {"C17.extra-event"}
  ELSE LET b == fault.base[fault.opi + 1] IN
       F(e.e = b.e, "C17.event-order")
       \cup (IF e.e # b.e THEN {} ELSE F(SameRes(e, b) \/ FailedThroughChannel(e), "C17." \o e.e))

(***************************************************************************)
(* dispatch                                                                *)
(***************************************************************************)
\* an RSA key file is either rsaEncryption or id-RSASSA-PSS; "the identical key" is of the same type
SameRsaType(e, imp) == (e.kty = "RSA" /\ Has(imp.mat, "pss")) => (imp.mat.pss = 1 <=> e.base \in PssBases)
LeakProps == {"C06", "C07", "C16", "C17", "C11", "FULL"}
IsOpEvent(e) == e.e \notin {"Case", "EndCase", "End", "Abort", "FaultRun", "FaultEnd", "SkipRun"}
Fails(e) == (IF IsOpEvent(e) THEN FaultFails(e) ELSE {}) \cup
  CASE e.e = "Load" -> LoadFails(e)
    [] e.e \in {"ItemGet", "Count", "Find", "ItemFree", "FreeBad", "FreeAll", "ErrAny"} -> RingFails(e)
    [] e.e = "BMap" -> BMapFails(e)
    [] e.e = "Verify" -> VerifyFails(e)
    [] e.e = "Generate" -> GenerateFails(e)
    [] e.e = "ToolVerify" -> IF On("C20") THEN F(P_VerifyExit(e.good, e.bad, e.exit), "C20.verify-exit") ELSE {}
    [] e.e = "ToolRoundTrip" -> IF On("C20") THEN F(e.gen_exit = 0 /\ e.tokdots = 2, "C20.generate") \cup F(e.gen_exit = 0 => e.ver_exit = 0, "C20.roundtrip") ELSE {}
    [] e.e = "ToolKeyConv" ->
         IF ~On("C20") THEN {}
         ELSE F(e.exit1 = 0 /\ e.nkeys1 = 1, "C20.key2jwk-exit")
              \cup (IF e.exit1 # 0 \/ e.nkeys1 # 1 THEN {} ELSE
                      F(P_SameKey(e.imp, e.kty, e.bits, e.priv) /\ SameRsaType(e, e.imp), "C20.key2jwk-samekey")
                      \cup (IF e.kty = "EC" THEN F(P_EcWidths(e.bits, e.priv, e.xlen, e.ylen, e.dlen), "C20.ec-width") ELSE {})
                      \* RFC 7518 section 2, Base64urlUInt: the minimum number of octets (no leading zero octet in n, e, d, p, q, dp, dq, qi)
                      \cup (IF e.kty = "RSA" /\ Has(e, "rsamin") THEN F(e.rsamin = 1, "C20.rsa-minimal") ELSE {})
                      \cup F(e.exit2 = 0 /\ e.nfiles = 1, "C20.jwk2key-exit")
                      \cup (IF e.exit2 # 0 \/ e.nfiles # 1 \/ e.exit3 # 0 THEN F(e.exit3 = 0, "C20.jwk2key-output")
                            ELSE F(P_SameKey(e.imp2, e.kty, e.bits, e.priv) /\ SameRsaType(e, e.imp2), "C20.jwk2key-samekey")))
    \* C02 on the command line: an explicit algorithm that disagrees with the key's alg attribute is a pair outside the table
    [] e.e = "ToolPin" -> IF On("C02") THEN F((e.match = 0 => e.ver_exit # 0) /\ ((e.match = 1 /\ e.gen_exit = 0) => e.ver_exit = 0), "C02.tool-pin") ELSE {}
    [] e.e = "ToolKeyConvMulti" ->
         IF ~On("C20") THEN {}
         ELSE F(e.exit1 = 0 /\ e.nkeys1 = e.n /\ Len(e.imps) = e.n, "C20.key2jwk-multi-exit")
              \cup (IF e.exit1 # 0 \/ e.nkeys1 # e.n \/ Len(e.imps) # e.n THEN {}
                    ELSE F(\A i \in 1..e.n : P_SameKey(e.imps[i], e.want[i].kty, e.want[i].bits, e.want[i].priv), "C20.key2jwk-multi-samekey"))
    [] e.e = "Thread" -> IF On("C18") THEN F(e.seq = e.par, "C18.results") ELSE {}
    [] e.e = "Codec" -> CodecFails(e)
    [] e.e = "CodecBatch" -> CodecBatchFails(e)
    [] e.e = "EndCase" -> (IF Has(e, "leak") /\ Prop \in LeakProps THEN F(e.leak = 0, Prop \o ".leak") ELSE {})
                          \* descriptors are a resource like memory: when every object of the case has been
                          \* freed the process holds the descriptors it held when the case began
                          \cup (IF Has(e, "fd") /\ Prop \in LeakProps THEN F(e.fd = 0, Prop \o ".fdleak") ELSE {})
                          \* under an application allocator: every block obtained from it during the case went back to it
                          \* (a block released with libc's free() instead is a leak to a pool or a quota allocator)
                          \cup (IF Has(e, "trk") /\ Prop \in LeakProps THEN F(e.trk = 0, Prop \o ".allocleak") ELSE {})
    [] e.e = "FaultEnd" -> IF Has(e, "leak") /\ Prop \in LeakProps THEN F(e.leak = 0, Prop \o ".leak") ELSE {}
    [] e.e = "End" -> IF Has(e, "leak") /\ Prop \in LeakProps THEN F(e.leak = 0, Prop \o ".leak") ELSE {}
    [] e.e = "Abort" -> {"abort." \o e.why}
    [] OTHER -> ConfigFails(e)

Memo(e) ==
  IF Has(e, "cmp") /\ e.cmp \notin DOMAIN memo
  THEN [k \in DOMAIN memo \cup {e.cmp} |-> IF k = e.cmp
          THEN (IF e.e = "Verify" THEN e.ret ELSE IF e.ret = "tok" THEN e.tokdig ELSE "null") ELSE memo[k]]
  ELSE memo

Apply(e) ==
  CASE e.e = "Clock" -> Clock(e.now)
    [] e.e = "Ops" -> ops' = e.cur /\ UNCHANGED <<now, rings, builders, checkers, toks, nextId>>
    [] e.e = "OpsT" -> ops' = e.cur /\ UNCHANGED <<now, rings, builders, checkers, toks, nextId>>
    [] e.e = "OpsThread" -> ops' = e.cur /\ UNCHANGED <<now, rings, builders, checkers, toks, nextId>>
    [] e.e = "Load" -> IF e.retnull = 0 THEN Load(e.ring, NewItemsOf(e), e.seterr) ELSE UNCHANGED vars
    [] e.e = "ItemFree" -> ItemFree(e.ring, IF Has(e, "hi") /\ e.hi > 0 THEN 1000000 ELSE e.index, e.ret)
    [] e.e = "FreeBad" -> FreeBad(e.ring)
    [] e.e = "FreeAll" -> FreeAll(e.ring)
    [] e.e = "RingErrClear" -> RingErrClear(e.ring)
    [] e.e = "RingFree" -> RingFree(e.ring)
    [] e.e = "CNew" -> CNew(e.c)
    [] e.e = "BNew" -> BNew(e.b)
    [] e.e = "CFree" -> CFree(e.c)
    [] e.e = "BFree" -> BFree(e.b)
    [] e.e = "CSetKey" -> CSetKey(e.c, e.alg, e.ring, e.key, e.ret)
    [] e.e = "BSetKey" -> BSetKey(e.b, e.alg, e.ring, e.key, e.ret)
    [] e.e = "CLeeway" -> CLeeway(e.c, e.claim, e.secs, e.ret)
    [] e.e = "CClaimSet" -> CClaimSet(e.c, e.claim, e.val, e.ret)
    [] e.e = "CClaimDel" -> CClaimDel(e.c, e.claim, e.ret)
    [] e.e = "CSetCb" /\ Has(e, "ctxonly") -> CSetCbCtx(e.c, e.ret)
    [] e.e = "BSetCb" /\ Has(e, "ctxonly") -> BSetCbCtx(e.b, e.ret)
    [] e.e = "CSetCb" -> CSetCb(e.c, IF Has(e, "prog") THEN e.prog ELSE <<>>, Has(e, "prog"), e.ret)
    [] e.e = "BSetCb" -> BSetCb(e.b, IF Has(e, "prog") THEN e.prog ELSE <<>>, Has(e, "prog"), e.ret)
    [] e.e = "BIat" -> BIat(e.b, e.enable)
    [] e.e = "BOffset" -> BOffset(e.b, e.claim, e.secs, e.ret)
    [] e.e = "BMap" ->
         IF (LET ma == MapAfter(IF e.which = "hdr" THEN builders[e.b].hdr ELSE builders[e.b].clm, e.k, e.v) IN ma.err = ANY \/ "alt" \in DOMAIN ma)
            /\ Has(e, "hdr")
         THEN /\ builders' = [builders EXCEPT ![e.b].hdr = MapOfList(e.hdr), ![e.b].clm = MapOfList(e.clm)]
              /\ UNCHANGED <<now, ops, rings, checkers, toks, nextId>>
         ELSE BMap(e.b, e.k, e.which, e.v)
    [] e.e = "Verify" -> Verify(e.c, e.err, e.msg)
    [] e.e = "Generate" -> Generate(e.b, e.slot, GObs(e), e.err, e.msg)
    [] e.e = "Forge" -> Forge(e.slot, e.tok)
    [] e.e = "CErrClear" -> CErrClear(e.c)
    [] e.e = "BErrClear" -> BErrClear(e.b)
    [] OTHER -> UNCHANGED vars

Reset ==
  /\ now' = <<BIAS, 405, 1306880>> /\ ops' = "openssl"
  /\ rings' = [r \in RingIds |-> NoRing]
  /\ builders' = [b \in ObjIds |-> Dead] /\ checkers' = [c \in ObjIds |-> Dead]
  /\ toks' = [s \in SlotIds |-> NullG] /\ nextId' = 0

TInit ==
  /\ Init
  /\ l = 1 /\ viol = <<>> /\ skipping = FALSE /\ curcase = "-" /\ memo = [k \in {} |-> 0]
  /\ cnt = [cases |-> 0, judged |-> 0, skipped |-> 0, shortrs |-> 0, faultruns |-> 0]
  /\ fault = NoFault

MaxViol == 200

TNext ==
  /\ l <= N
  /\ l' = l + 1
  /\ LET e == T[l] IN
     IF e.e = "Case" THEN
          /\ Reset
          /\ curcase' = e.id /\ skipping' = FALSE /\ memo' = [k \in {} |-> 0]
          /\ cnt' = [cnt EXCEPT !.cases = @ + 1]
          /\ fault' = NoFault
          /\ UNCHANGED viol
     ELSE IF e.e = "SkipRun" THEN
          \* the same case once more without configuration call number e.skip (no fault): collected as skips[e.skip]
          /\ Reset
          /\ skipping' = FALSE /\ memo' = [k \in {} |-> 0]
          /\ fault' = [fault EXCEPT !.on = FALSE, !.skipidx = e.skip, !.skips = (e.skip :> <<>>) @@ @]
          /\ UNCHANGED <<viol, curcase, cnt>>
     ELSE IF e.e = "FaultRun" THEN
          \* a new run of the same case with allocation request k failing: fresh state, same base
          /\ Reset
          /\ skipping' = FALSE /\ memo' = [k \in {} |-> 0]
          /\ cnt' = [cnt EXCEPT !.faultruns = @ + 1]
          /\ fault' = [fault EXCEPT !.on = TRUE, !.opi = 0, !.skipidx = 0]
          /\ UNCHANGED <<viol, curcase>>
     ELSE IF skipping /\ e.e # "Abort" THEN
          /\ cnt' = [cnt EXCEPT !.skipped = @ + 1]
          /\ UNCHANGED <<vars, viol, skipping, curcase, memo, fault>>
     ELSE LET f == Fails(e) IN
          IF f # {} THEN
               /\ viol' = IF Len(viol) < MaxViol
                          THEN Append(viol, [case |-> curcase, line |-> l, ev |-> e.e, clauses |-> f]) ELSE viol
               /\ skipping' = TRUE
               /\ cnt' = [cnt EXCEPT !.judged = @ + 1]
               /\ UNCHANGED <<vars, curcase, memo, fault>>
          ELSE /\ Apply(e)
               /\ memo' = Memo(e)
               /\ cnt' = [cnt EXCEPT !.judged = @ + 1,
                                     !.shortrs = IF e.e = "Generate" /\ Has(e, "rs_short") /\ e.rs_short = 1 THEN @ + 1 ELSE @]
               /\ fault' = IF ~IsOpEvent(e) THEN fault
                           ELSE IF fault.on THEN [fault EXCEPT !.opi = @ + 1]
                           ELSE IF Prop # "C17" THEN fault
                           ELSE IF fault.skipidx # 0 THEN [fault EXCEPT !.skips[fault.skipidx] = Append(@, e)]
                           ELSE [fault EXCEPT !.base = Append(@, e)]
               /\ UNCHANGED <<viol, skipping, curcase>>

TSpec == TInit /\ [][TNext]_<<vars, tvars>>

\* printed once, at the end of the (linear) behaviour
Report ==
  (l = N + 1) => PrintT(<<"RESULT", ToJson([consumed |-> l - 1, total |-> N, prop |-> Prop,
                                            nviol |-> Len(viol), viol |-> viol, cnt |-> cnt])>>)
=============================================================================
