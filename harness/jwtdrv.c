/* jwtdrv - conformance driver for libjwt.
 *
 * Reads scripts (one JSON array of operations per line = one case), performs
 * the real libjwt calls on real objects, and writes one ndjson event per
 * operation with the arguments and every observable result.  The driver
 * concretises abstract arguments (key descriptors -> JWK text, token
 * descriptors -> token strings signed by its own signer) and projects real
 * results to abstract ones (item lists, maps, decoded tokens).  It contains no
 * expectations: all judging is done by TLC against spec/Trace.tla.
 */
#define _GNU_SOURCE
#include <stdio.h>
#include <stdlib.h>
#include <string.h>
#include <stdint.h>
#include <stdarg.h>
#include <signal.h>
#include <unistd.h>
#include <fcntl.h>
#include <errno.h>
#include <time.h>
#include <pthread.h>
#include <sys/wait.h>
#include <sys/stat.h>

#include <jansson.h>
#include <openssl/evp.h>
#include <openssl/pem.h>
#include <openssl/hmac.h>
#include <openssl/bn.h>
#include <openssl/ec.h>
#include <openssl/ecdsa.h>
#include <openssl/rsa.h>
#include <openssl/sha.h>
#include <openssl/core_names.h>
#include <openssl/err.h>

#include <jwt.h>

/* internal base64 helpers of the statically linked library (C11) */
int jwt_base64uri_encode(char **_dst, const char *plain, int plain_len);
void *jwt_base64uri_decode(const char *src, int *ret_len);

#if defined(__has_feature)
#  if __has_feature(address_sanitizer)
#    define DRV_ASAN 1
#  endif
#  if __has_feature(thread_sanitizer)
#    define DRV_TSAN 1
#  endif
#endif
#ifdef DRV_ASAN
void __sanitizer_set_death_callback(void (*cb)(void));
int __lsan_do_recoverable_leak_check(void);
void __lsan_disable(void);
void __lsan_enable(void);
#endif

/* ------------------------------------------------------------------ clock */
static __thread int tl_dummy;
static volatile time_t drv_now = 1700000000;
static int drv_tick;	/* Clock op with "tick":1 - every reading of the clock is one second later than the previous one */
time_t time(time_t *t)
{
	time_t r = drv_now;
	if (drv_tick) drv_now += 1;
	if (t)
		*t = r;
	return r;
}

/* ---------------------------------------------------------------- globals */
static int out_fd = 1;
static const char *keys_dir = "harness/keys";
static const char *tmp_dir = "/tmp";
static uint64_t seed = 1;
static int leak_every = 0;	/* 0 = never */
static int call_timeout = 20;	/* seconds per case */
static char startup_ops[32] = "?";
static const char *cur_case = "";
static int cur_op = -1;
static pthread_mutex_t out_mu = PTHREAD_MUTEX_INITIALIZER;

static void die(const char *fmt, ...)
{
	va_list ap;
	va_start(ap, fmt);
	fprintf(stderr, "jwtdrv: ");
	vfprintf(stderr, fmt, ap);
	fprintf(stderr, "\n");
	va_end(ap);
	_exit(3);
}

/* ------------------------------------------------------------------- PRNG */
static uint64_t splitmix(uint64_t *s)
{
	uint64_t z = (*s += 0x9e3779b97f4a7c15ULL);
	z = (z ^ (z >> 30)) * 0xbf58476d1ce4e5b9ULL;
	z = (z ^ (z >> 27)) * 0x94d049bb133111ebULL;
	return z ^ (z >> 31);
}
static uint64_t fnv(const char *s)
{
	uint64_t h = 1469598103934665603ULL;
	for (; *s; s++) { h ^= (unsigned char)*s; h *= 1099511628211ULL; }
	return h;
}
static uint64_t case_rng;	/* reseeded per case from seed and case id */
static uint64_t rnd(void) { return splitmix(&case_rng); }
static unsigned rndn(unsigned n) { return n ? (unsigned)(rnd() % n) : 0; }

/* ------------------------------------------------------ base64url (own) */
static const char B64U[] = "ABCDEFGHIJKLMNOPQRSTUVWXYZabcdefghijklmnopqrstuvwxyz0123456789-_";
static char *b64u_enc(const unsigned char *in, size_t n)
{
	char *out = malloc(4 * ((n + 2) / 3) + 1), *p = out;
	size_t i;
	for (i = 0; i + 2 < n; i += 3) {
		unsigned v = (in[i] << 16) | (in[i + 1] << 8) | in[i + 2];
		*p++ = B64U[v >> 18]; *p++ = B64U[(v >> 12) & 63];
		*p++ = B64U[(v >> 6) & 63]; *p++ = B64U[v & 63];
	}
	if (n - i == 1) {
		unsigned v = in[i] << 16;
		*p++ = B64U[v >> 18]; *p++ = B64U[(v >> 12) & 63];
	} else if (n - i == 2) {
		unsigned v = (in[i] << 16) | (in[i + 1] << 8);
		*p++ = B64U[v >> 18]; *p++ = B64U[(v >> 12) & 63];
		*p++ = B64U[(v >> 6) & 63];
	}
	*p = 0;
	return out;
}
static int b64u_val(int c)
{
	if (c >= 'A' && c <= 'Z') return c - 'A';
	if (c >= 'a' && c <= 'z') return c - 'a' + 26;
	if (c >= '0' && c <= '9') return c - '0' + 52;
	if (c == '-' || c == '+') return 62;
	if (c == '_' || c == '/') return 63;
	return -1;
}
/* strict-ish decoder for projecting library output: returns NULL on any
 * foreign character or impossible length */
static unsigned char *b64u_dec(const char *s, size_t n, size_t *outn)
{
	unsigned char *out = malloc(n + 4);
	size_t i, j = 0;
	unsigned acc = 0;
	int bits = 0;
	if (n % 4 == 1) { free(out); return NULL; }
	for (i = 0; i < n; i++) {
		int v = b64u_val((unsigned char)s[i]);
		if (v < 0) { free(out); return NULL; }
		acc = (acc << 6) | v; bits += 6;
		if (bits >= 8) { bits -= 8; out[j++] = (acc >> bits) & 0xff; }
	}
	*outn = j;
	out[j] = 0;
	return out;
}

static char *hexenc(const unsigned char *b, size_t n)
{
	char *o = malloc(2 * n + 1);
	for (size_t i = 0; i < n; i++) sprintf(o + 2 * i, "%02x", b[i]);
	o[2 * n] = 0;
	return o;
}
static unsigned char *hexdec(const char *h, size_t *n)
{
	size_t l = strlen(h) / 2;
	unsigned char *o = malloc(l + 1);
	for (size_t i = 0; i < l; i++) { unsigned v; sscanf(h + 2 * i, "%2x", &v); o[i] = v; }
	o[l] = 0; *n = l;
	return o;
}
static int is_plain_ascii(const char *s)
{
	for (; *s; s++)
		if ((unsigned char)*s < 0x20 || (unsigned char)*s > 0x7e)
			return 0;
	return 1;
}

/* --------------------------------------------------- wide integers (TLC) */
/* v + 2^63 as three limbs of 20, 22, 22 bits */
static json_t *wide(int64_t v)
{
	uint64_t u = (uint64_t)v + 0x8000000000000000ULL;
	return json_pack("[iii]", (int)(u >> 44), (int)((u >> 22) & 0x3fffff), (int)(u & 0x3fffff));
}
static int64_t unwide(json_t *w)
{
	uint64_t u;
	if (!json_is_array(w) || json_array_size(w) != 3) die("bad wide");
	u = ((uint64_t)json_integer_value(json_array_get(w, 0)) << 44) |
	    ((uint64_t)json_integer_value(json_array_get(w, 1)) << 22) |
	    (uint64_t)json_integer_value(json_array_get(w, 2));
	return (int64_t)(u - 0x8000000000000000ULL);
}

/* ----------------------------------------------------------------- events */
/* the driver's own serialisations live in libc memory whatever allocator jansson has been given (they are
 * realloc'ed and free'd here as ordinary strings) */
static char *drv_json_dumps(const json_t *j, size_t flags)
{
	json_malloc_t m; json_free_t f;
	char *s = json_dumps(j, flags), *c;
	if (!s) return NULL;
	c = strdup(s);
	json_get_alloc_funcs(&m, &f);
	f(s);
	return c;
}
#define json_dumps drv_json_dumps
static int post_fop;	/* C17: > 0 while the operations AFTER the one in which the fault fired (script index post_fop) are run */
static void emit(json_t *ev)
{
	char *s;
	size_t n;
	if (post_fop > 0) json_object_set_new(ev, "post", json_integer(post_fop));
	s = json_dumps(ev, JSON_COMPACT | JSON_ENSURE_ASCII);
	if (!s) die("dump failed");
	n = strlen(s);
	s[n] = '\n';	/* overwrite NUL; write n+1 bytes */
	pthread_mutex_lock(&out_mu);
	if (write(out_fd, s, n + 1) < 0) die("write: %s", strerror(errno));
	pthread_mutex_unlock(&out_mu);
	free(s);
}
static int in_lib;	/* > 0 while a call into libjwt is in progress (LIB / LIBV) */
static void emit_abort(const char *why)
{
	char buf[512];
	int n = snprintf(buf, sizeof buf, "{\"e\":\"Abort\",\"case\":\"%s\",\"opi\":%d,\"why\":\"%s\",\"inlib\":%d}\n",
			 cur_case, cur_op, why, in_lib > 0 || cur_op >= 0);	/* an operation of the script (or the release of its objects) is in progress */
	if (write(out_fd, buf, n) < 0) {}
}
static volatile sig_atomic_t aborting;
static void on_signal(int sig)
{
	if (aborting) _exit(4);
	aborting = 1;
	emit_abort(sig == SIGALRM ? "timeout" : sig == SIGSEGV ? "sigsegv" :
		   sig == SIGABRT ? "sigabrt" : sig == SIGBUS ? "sigbus" : "signal");
	_exit(sig == SIGALRM ? 5 : 4);
}
#ifdef DRV_ASAN
static void on_san_death(void)
{
	if (aborting) return;
	aborting = 1;
	emit_abort("sanitizer");
}
#endif

/* json helpers */
static const char *jstr(json_t *o, const char *k, const char *def)
{
	json_t *v = json_object_get(o, k);
	return v && json_is_string(v) ? json_string_value(v) : def;
}
static long jint(json_t *o, const char *k, long def)
{
	json_t *v = json_object_get(o, k);
	return v && json_is_integer(v) ? (long)json_integer_value(v) : def;
}
static int is_none(const char *s) { return !s || !strcmp(s, "~"); }
static json_t *jsn(const char *s) { return json_string(s ? s : "~"); }

/* =================================================================== keys */
struct poolkey { char base[32]; EVP_PKEY *pkey; char *pem_pub; };
static struct poolkey pool[64];
static int npool;

static EVP_PKEY *pool_get(const char *base)
{
	char path[512];
	FILE *f;
	for (int i = 0; i < npool; i++)
		if (!strcmp(pool[i].base, base)) return pool[i].pkey;
	snprintf(path, sizeof path, "%s/%s.pem", keys_dir, base);
	f = fopen(path, "r");
	if (!f) die("no key file %s", path);
	ERR_set_mark();
	EVP_PKEY *k = PEM_read_PrivateKey(f, NULL, NULL, NULL);
	ERR_pop_to_mark();
	fclose(f);
	if (!k) die("cannot parse %s", path);
	snprintf(pool[npool].base, sizeof pool[npool].base, "%s", base);
	pool[npool].pkey = k;
	{
		BIO *b = BIO_new(BIO_s_mem()); char *p; long n;
		PEM_write_bio_PUBKEY(b, k);
		n = BIO_get_mem_data(b, &p);
		pool[npool].pem_pub = strndup(p, n);
		BIO_free(b);
	}
	npool++;
	return k;
}
static const char *pool_pubpem(const char *base)
{
	pool_get(base);
	for (int i = 0; i < npool; i++)
		if (!strcmp(pool[i].base, base)) return pool[i].pem_pub;
	return NULL;
}
/* fresh keys (thorough tiers): generated on demand, cached under a name */
static EVP_PKEY *fresh_key(const char *kind, int bits)
{
	EVP_PKEY *k = NULL;
	if (!strcmp(kind, "RSA")) k = EVP_PKEY_Q_keygen(NULL, NULL, "RSA", (size_t)bits);
	else if (!strcmp(kind, "P-256")) k = EVP_PKEY_Q_keygen(NULL, NULL, "EC", "prime256v1");
	else if (!strcmp(kind, "P-384")) k = EVP_PKEY_Q_keygen(NULL, NULL, "EC", "secp384r1");
	else if (!strcmp(kind, "P-521")) k = EVP_PKEY_Q_keygen(NULL, NULL, "EC", "secp521r1");
	else if (!strcmp(kind, "secp256k1")) k = EVP_PKEY_Q_keygen(NULL, NULL, "EC", "secp256k1");
	else if (!strcmp(kind, "Ed25519")) k = EVP_PKEY_Q_keygen(NULL, NULL, "ED25519");
	else if (!strcmp(kind, "Ed448")) k = EVP_PKEY_Q_keygen(NULL, NULL, "ED448");
	else k = EVP_PKEY_Q_keygen(NULL, NULL, "EC", kind);	/* any other curve OpenSSL knows by name */
	if (!k) die("keygen %s failed", kind);
	return k;
}
static void pool_add(const char *name, EVP_PKEY *k)
{
	for (int i = 0; i < npool; i++)
		if (!strcmp(pool[i].base, name)) {
			EVP_PKEY_free(pool[i].pkey); free(pool[i].pem_pub);
			pool[i] = pool[--npool];
			break;
		}
	if (npool >= 63) die("pool full");
	snprintf(pool[npool].base, sizeof pool[npool].base, "%s", name);
	pool[npool].pkey = k;
	BIO *b = BIO_new(BIO_s_mem()); char *p; long n;
	PEM_write_bio_PUBKEY(b, k);
	n = BIO_get_mem_data(b, &p);
	pool[npool].pem_pub = strndup(p, n);
	BIO_free(b);
	npool++;
}

/* oct key bytes: deterministic from (len, var) */
static void oct_bytes(unsigned char *out, size_t len, const char *var)
{
	uint64_t s = fnv(var) ^ (len * 0x9e3779b97f4a7c15ULL) ^ 0x5eedULL;
	const char *q;
	for (size_t i = 0; i < len; i++) out[i] = (unsigned char)(splitmix(&s) >> 24);
	/* variants "<v>.end<hh>" / "<v>.beg<hh>": the last / first octet is forced (newline, NUL, space, '=' ...) */
	if (len && (q = strstr(var, ".end")) && strlen(q) == 6) out[len - 1] = (unsigned char)strtoul(q + 4, NULL, 16);
	if (len && (q = strstr(var, ".beg")) && strlen(q) == 6) out[0] = (unsigned char)strtoul(q + 4, NULL, 16);
}

static char *bn_b64(const BIGNUM *bn, int width, int pad)
{
	int n = BN_num_bytes(bn);
	int w = width > n ? width : n;
	unsigned char *buf;
	char *r;
	if (width < 0) w = n ? n : 1;	/* minimal */
	buf = calloc(1, w + pad + 1);
	BN_bn2binpad(bn, buf + pad, w);
	r = b64u_enc(buf, w + pad);
	free(buf);
	return r;
}
static void put_bn(json_t *o, const char *name, EVP_PKEY *k, const char *param, int width, int pad)
{
	BIGNUM *bn = NULL;
	if (EVP_PKEY_get_bn_param(k, param, &bn) == 1) {
		char *s = bn_b64(bn, width, pad);
		json_object_set_new(o, name, json_string(s));
		free(s);
		BN_free(bn);
	}
}

/* Apply one member-level defect to a JWK object */
static void apply_defect(json_t *jwk, const char *member, const char *cls)
{
	json_t *cur = json_object_get(jwk, member);
	if (!strcmp(cls, "absent")) json_object_del(jwk, member);
	else if (!strcmp(cls, "null")) json_object_set_new(jwk, member, json_null());
	else if (!strcmp(cls, "number")) json_object_set_new(jwk, member, json_integer(42));
	else if (!strcmp(cls, "real")) json_object_set_new(jwk, member, json_real(1.5));
	else if (!strcmp(cls, "bool")) json_object_set_new(jwk, member, json_true());
	else if (!strcmp(cls, "array")) json_object_set_new(jwk, member, json_pack("[s]", "x"));
	else if (!strcmp(cls, "object")) json_object_set_new(jwk, member, json_pack("{s:s}", "a", "b"));
	else if (!strcmp(cls, "empty")) json_object_set_new(jwk, member, json_string(""));
	else if (!strcmp(cls, "notb64")) json_object_set_new(jwk, member, json_string("!!*not*base64!!"));
	else if (!strcmp(cls, "len1mod4")) json_object_set_new(jwk, member, json_string("AAAAA"));
	else if (!strcmp(cls, "short")) {	/* wrong length: drop the first 4 chars */
		if (cur && json_is_string(cur) && strlen(json_string_value(cur)) > 8)
			json_object_set_new(jwk, member, json_string(json_string_value(cur) + 4));
		else json_object_set_new(jwk, member, json_string("AQ"));
	} else if (!strcmp(cls, "long")) {
		if (cur && json_is_string(cur)) {
			char *s = malloc(strlen(json_string_value(cur)) + 9);
			sprintf(s, "AQIDBAUG%s", json_string_value(cur));
			json_object_set_new(jwk, member, json_string(s));
			free(s);
		} else json_object_set_new(jwk, member, json_string("AQIDBAUG"));
	} else if (!strcmp(cls, "unknownstr")) json_object_set_new(jwk, member, json_string("bogus-value"));
	else if (!strcmp(cls, "foreign")) json_object_set_new(jwk, member, json_string("AQAB"));
	else if (!strcmp(cls, "huge")) {	/* valid base64url that decodes to 3 KiB: larger than any number a key of these sizes has */
		char *z = malloc(4097);
		for (int i = 0; i < 4096; i++) z[i] = B64U[(i * 11 + 5) % 64];
		z[4096] = 0;
		json_object_set_new(jwk, member, json_string(z));
		free(z);
	}
	else if (!strcmp(cls, "unknownlong")) {	/* an unknown name longer than any message buffer */
		char *z = malloc(301);
		memset(z, 'z', 300); z[300] = 0;
		json_object_set_new(jwk, member, json_string(z));
		free(z);
	}
	/* y := x: coordinates of the right width that are not a point of the curve */
	else if (!strcmp(cls, "offcurve")) { json_t *x = json_object_get(jwk, "x"); json_object_set_new(jwk, member, x ? json_copy(x) : json_string("AQAB")); }
	/* valid JSON strings with characters beyond ASCII (UTF-8 bytes >= 0x80) where base64url is expected */
	else if (!strcmp(cls, "utf8")) json_object_set_new(jwk, member, json_string("AQAB\xc3\xa9"));
	else if (!strcmp(cls, "utf8b")) json_object_set_new(jwk, member, json_string("\xf4\x8f\xbf\xbf" "AQAB\xe2\x82\xac" "A"));
	else die("unknown defect class %s", cls);
}

/* Export a key descriptor as a JWK json object (the driver's own exporter). */
static json_t *export_jwk(json_t *kd)
{
	const char *base = jstr(kd, "base", "~");
	const char *kty = jstr(kd, "kty", "~");
	int priv = (int)jint(kd, "priv", 0);
	int pad = (int)jint(kd, "pad", 0);	/* zero-pad integers by this many bytes */
	int minimal = (int)jint(kd, "minimal", 0);
	json_t *o = json_object();
	json_t *v;

	if (!strcmp(base, "rawobj")) {	/* arbitrary object given verbatim */
		json_decref(o);
		return json_deep_copy(json_object_get(kd, "obj"));
	}
	if (!strcmp(kty, "oct")) {
		size_t len = (size_t)jint(kd, "bits", 0) / 8;
		unsigned char *b = malloc(len + 1);
		char *s;
		oct_bytes(b, len, jstr(kd, "var", "a"));
		s = b64u_enc(b, len);
		if (jint(kd, "kpad", 0)) {	/* the same octets written WITH '=' padding (tolerated by the decoder): still len octets of key */
			size_t n = strlen(s);
			s = realloc(s, n + 4);
			while (n % 4) s[n++] = '=';
			s[n] = 0;
		}
		json_object_set_new(o, "kty", json_string("oct"));
		json_object_set_new(o, "k", json_string(s));
		free(s); free(b);
	} else {
		EVP_PKEY *k = pool_get(base);
		if (!strcmp(kty, "RSA")) {
			json_object_set_new(o, "kty", json_string("RSA"));
			put_bn(o, "n", k, OSSL_PKEY_PARAM_RSA_N, minimal ? -1 : 0, pad);
			put_bn(o, "e", k, OSSL_PKEY_PARAM_RSA_E, minimal ? -1 : 0, pad);
			if (priv) {
				put_bn(o, "d", k, OSSL_PKEY_PARAM_RSA_D, minimal ? -1 : 0, pad);
				put_bn(o, "p", k, OSSL_PKEY_PARAM_RSA_FACTOR1, minimal ? -1 : 0, pad);
				put_bn(o, "q", k, OSSL_PKEY_PARAM_RSA_FACTOR2, minimal ? -1 : 0, pad);
				put_bn(o, "dp", k, OSSL_PKEY_PARAM_RSA_EXPONENT1, minimal ? -1 : 0, pad);
				put_bn(o, "dq", k, OSSL_PKEY_PARAM_RSA_EXPONENT2, minimal ? -1 : 0, pad);
				put_bn(o, "qi", k, OSSL_PKEY_PARAM_RSA_COEFFICIENT1, minimal ? -1 : 0, pad);
			}
		} else if (!strcmp(kty, "EC")) {
			int w = ((int)jint(kd, "bits", 0) + 7) / 8;
			json_object_set_new(o, "kty", json_string("EC"));
			json_object_set_new(o, "crv", json_string(jstr(kd, "crv", "~")));
			put_bn(o, "x", k, OSSL_PKEY_PARAM_EC_PUB_X, minimal ? -1 : w, pad);
			put_bn(o, "y", k, OSSL_PKEY_PARAM_EC_PUB_Y, minimal ? -1 : w, pad);
			if (priv)
				put_bn(o, "d", k, OSSL_PKEY_PARAM_PRIV_KEY, minimal ? -1 : w, pad);
		} else if (!strcmp(kty, "OKP")) {
			unsigned char buf[128]; size_t n = sizeof buf; char *s;
			json_object_set_new(o, "kty", json_string("OKP"));
			json_object_set_new(o, "crv", json_string(jstr(kd, "crv", "~")));
			EVP_PKEY_get_raw_public_key(k, buf, &n);
			s = b64u_enc(buf, n);
			json_object_set_new(o, "x", json_string(s)); free(s);
			if (priv) {
				n = sizeof buf;
				EVP_PKEY_get_raw_private_key(k, buf, &n);
				s = b64u_enc(buf, n);
				json_object_set_new(o, "d", json_string(s)); free(s);
			}
		} else die("export_jwk: kty %s", kty);
	}
	if (!is_none(jstr(kd, "alg", "~"))) json_object_set_new(o, "alg", json_string(jstr(kd, "alg", "")));
	if (!is_none(jstr(kd, "kid", "~"))) json_object_set_new(o, "kid", json_string(jstr(kd, "kid", "")));
	if (!is_none(jstr(kd, "use", "~"))) json_object_set_new(o, "use", json_string(jstr(kd, "use", "")));
	v = json_object_get(kd, "ops");
	if (v && json_is_array(v) && json_array_size(v))
		json_object_set(o, "key_ops", v);
	/* extra members (C08: members that do not belong / unknown) */
	v = json_object_get(kd, "extra");
	if (v && json_is_array(v)) {
		size_t i; json_t *p;
		json_array_foreach(v, i, p) {
			/* a value spelled "#json:<text>" is that JSON value (true, 17, null, {"a":1}), anything else is itself */
			json_t *xv = json_array_get(p, 1);
			const char *xs = json_is_string(xv) ? json_string_value(xv) : NULL;
			if (xs && !strncmp(xs, "#json:", 6)) {
				json_error_t e; json_t *jv2 = json_loads(xs + 6, JSON_DECODE_ANY, &e);
				if (jv2) { json_object_set_new(o, json_string_value(json_array_get(p, 0)), jv2); continue; }
			}
			json_object_set(o, json_string_value(json_array_get(p, 0)), xv);
		}
	}
	/* defects (C07) */
	v = json_object_get(kd, "defect");
	if (v && json_is_array(v)) {
		size_t i; json_t *p;
		json_array_foreach(v, i, p)
		{
			const char *dm = json_string_value(json_array_get(p, 0)), *dc = json_string_value(json_array_get(p, 1));
			if (!strcmp(dc, "xother") && !strcmp(kty, "OKP") && strlen(base) > 1 && base[strlen(base) - 1] == 'a') {
				/* x of ANOTHER key of the same curve (a stale or copied public half next to d) */
				char ob[64]; EVP_PKEY *ok; unsigned char raw[64]; size_t rl = sizeof raw;
				snprintf(ob, sizeof ob, "%.*sb", (int)strlen(base) - 1, base);
				ok = pool_get(ob);
				if (ok && EVP_PKEY_get_raw_public_key(ok, raw, &rl) == 1) {
					char *xs = b64u_enc(raw, rl);
					json_object_set_new(o, "x", json_string(xs));
					free(xs);
					continue;
				}
			}
			apply_defect(o, dm, dc);
		}
	}
	return o;
}

/* ============================================================== signer */
static const EVP_MD *md_for(const char *alg)
{
	size_t n = strlen(alg);
	if (n >= 5 && !strncmp(alg + 2, "256", 3)) return EVP_sha256();
	if (n >= 5 && !strncmp(alg + 2, "384", 3)) return EVP_sha384();
	if (n >= 5 && !strncmp(alg + 2, "512", 3)) return EVP_sha512();
	return NULL;
}
/* sign text with pkey under alg; returns malloc'd raw JWS signature */
/* The driver's own OpenSSL work must leave the thread's OpenSSL error queue exactly as the
 * library left it (ERR_set_mark / ERR_pop_to_mark), neither adding to it nor clearing it. */
static unsigned char *sign_asym_(EVP_PKEY *k, const char *alg, const char *text, size_t tlen, size_t *slen, int width);
static unsigned char *sign_asym(EVP_PKEY *k, const char *alg, const char *text, size_t tlen, size_t *slen, int width)
{
	unsigned char *r;
	ERR_set_mark();
	r = sign_asym_(k, alg, text, tlen, slen, width);
	ERR_pop_to_mark();
	return r;
}
static unsigned char *sign_asym_(EVP_PKEY *k, const char *alg, const char *text, size_t tlen, size_t *slen, int width)
{
	EVP_MD_CTX *c = EVP_MD_CTX_new();
	EVP_PKEY_CTX *pc = NULL;
	const EVP_MD *md = md_for(alg);
	unsigned char *sig = NULL;
	size_t n = 0;
	int isec = alg[0] == 'E' && alg[1] == 'S';
	int ised = !strcmp(alg, "EdDSA");
	if (EVP_DigestSignInit(c, &pc, ised ? NULL : md, NULL, k) != 1) goto fail;
	if (alg[0] == 'P') {
		if (EVP_PKEY_CTX_set_rsa_padding(pc, RSA_PKCS1_PSS_PADDING) <= 0) goto fail;
		if (EVP_PKEY_CTX_set_rsa_pss_saltlen(pc, RSA_PSS_SALTLEN_DIGEST) <= 0) goto fail;
	}
	if (EVP_DigestSign(c, NULL, &n, (const unsigned char *)text, tlen) != 1) goto fail;
	sig = malloc(n + 1);
	if (EVP_DigestSign(c, sig, &n, (const unsigned char *)text, tlen) != 1) goto fail;
	EVP_MD_CTX_free(c);
	if (isec) {
		const unsigned char *p = sig;
		ECDSA_SIG *es = d2i_ECDSA_SIG(NULL, &p, (long)n);
		unsigned char *raw;
		if (!es) { free(sig); return NULL; }
		if (!width) width = (EVP_PKEY_get_bits(k) + 7) / 8;
		raw = calloc(1, 2 * width + 1);
		BN_bn2binpad(ECDSA_SIG_get0_r(es), raw, width);
		BN_bn2binpad(ECDSA_SIG_get0_s(es), raw + width, width);
		ECDSA_SIG_free(es);
		free(sig);
		*slen = 2 * width;
		return raw;
	}
	*slen = n;
	return sig;
fail:
	EVP_MD_CTX_free(c);
	free(sig);
	return NULL;
}
/* independent verification: 1 valid, 0 invalid */
static int verify_asym_(EVP_PKEY *k, const char *alg, const char *text, size_t tlen, const unsigned char *sig, size_t slen);
static int verify_asym(EVP_PKEY *k, const char *alg, const char *text, size_t tlen, const unsigned char *sig, size_t slen)
{
	int r;
	ERR_set_mark();
	r = verify_asym_(k, alg, text, tlen, sig, slen);
	ERR_pop_to_mark();
	return r;
}
static int verify_asym_(EVP_PKEY *k, const char *alg, const char *text, size_t tlen, const unsigned char *sig, size_t slen)
{
	EVP_MD_CTX *c = EVP_MD_CTX_new();
	EVP_PKEY_CTX *pc = NULL;
	const EVP_MD *md = md_for(alg);
	unsigned char *der = NULL;
	int ok = 0;
	int isec = alg[0] == 'E' && alg[1] == 'S';
	int ised = !strcmp(alg, "EdDSA");
	if (isec) {
		size_t w = (EVP_PKEY_get_bits(k) + 7) / 8;
		ECDSA_SIG *es;
		int dl;
		unsigned char *p;
		if (slen != 2 * w) goto done;
		es = ECDSA_SIG_new();
		ECDSA_SIG_set0(es, BN_bin2bn(sig, w, NULL), BN_bin2bn(sig + w, w, NULL));
		dl = i2d_ECDSA_SIG(es, NULL);
		p = der = malloc(dl);
		i2d_ECDSA_SIG(es, &p);
		ECDSA_SIG_free(es);
		sig = der; slen = dl;
	}
	if (EVP_DigestVerifyInit(c, &pc, ised ? NULL : md, NULL, k) != 1) goto done;
	if (alg[0] == 'P') {
		if (EVP_PKEY_CTX_set_rsa_padding(pc, RSA_PKCS1_PSS_PADDING) <= 0) goto done;
		if (EVP_PKEY_CTX_set_rsa_pss_saltlen(pc, RSA_PSS_SALTLEN_AUTO) <= 0) goto done;
	}
	ok = EVP_DigestVerify(c, sig, slen, (const unsigned char *)text, tlen) == 1;
done:
	EVP_MD_CTX_free(c);
	free(der);
	return ok;
}
static unsigned char *sign_hmac(const char *alg, const unsigned char *key, size_t klen, const char *text, size_t tlen, size_t *slen)
{
	unsigned char *out = malloc(EVP_MAX_MD_SIZE);
	unsigned int n = 0;
	static const unsigned char zero[1] = {0};
	if (!HMAC(md_for(alg), klen ? key : zero, (int)klen, (const unsigned char *)text, tlen, out, &n)) { free(out); return NULL; }
	*slen = n;
	return out;
}
/* which pool EVP_PKEY a descriptor stands for (NULL for oct) */
static EVP_PKEY *kd_pkey(json_t *kd)
{
	if (!strcmp(jstr(kd, "kty", "~"), "oct")) return NULL;
	return pool_get(jstr(kd, "base", "~"));
}
/* sign with the key a descriptor denotes, under alg (any family mismatch -> NULL) */
static unsigned char *kd_sign(json_t *kd, const char *alg, const char *text, size_t tlen, size_t *slen)
{
	const char *kty = jstr(kd, "kty", "~");
	if (alg[0] == 'H') {
		if (strcmp(kty, "oct")) return NULL;
		size_t len = (size_t)jint(kd, "bits", 0) / 8;
		unsigned char *b = malloc(len + 1), *r;
		oct_bytes(b, len, jstr(kd, "var", "a"));
		r = sign_hmac(alg, b, len, text, tlen, slen);
		free(b);
		return r;
	}
	if (!strcmp(kty, "oct")) return NULL;
	return sign_asym(kd_pkey(kd), alg, text, tlen, slen, 0);
}
static int kd_verify(json_t *kd, const char *alg, const char *text, size_t tlen, const unsigned char *sig, size_t slen)
{
	const char *kty = jstr(kd, "kty", "~");
	if (alg[0] == 'H') {
		size_t n = 0; unsigned char *m; int ok;
		if (strcmp(kty, "oct")) return 0;
		m = kd_sign(kd, alg, text, tlen, &n);
		ok = m && n == slen && !CRYPTO_memcmp(m, sig, n);
		free(m);
		return ok;
	}
	if (!strcmp(kty, "oct")) return 0;
	return verify_asym(kd_pkey(kd), alg, text, tlen, sig, slen);
}

/* ========================================================== object tables */
#define MAXR 8
#define MAXI 96
#define MAXO 8
#define MAXSLOT 16
struct irec { const jwk_item_t *ptr; int id; json_t *kd; };
struct ring { jwk_set_t *set; struct irec it[MAXI]; int n; };
struct cfgobj {
	void *obj;	/* jwt_builder_t* or jwt_checker_t* */
	json_t *cfg;	/* array of config ops applied (for twins) */
	json_t *cb;	/* callback program (array) or NULL */
	json_t *cbres;	/* results of last callback run */
	int cbran;
	int istwin;
};
static struct ring rings[MAXR];
static struct cfgobj builders[MAXO], checkers[MAXO];
static char *slots[MAXSLOT];
static json_t *slotkd[MAXSLOT];	/* descriptor of key that signed, or NULL */
static int next_item_id;

static struct ring *ring_of(json_t *op)
{
	long r = jint(op, "ring", 0);
	if (r < 0 || r >= MAXR) die("ring index");
	return &rings[r];
}
static const jwk_item_t *item_at(json_t *op)
{
	/* "key": -1 / absent = NULL, else index into ring */
	long idx = jint(op, "key", -1);
	struct ring *r = ring_of(op);
	if (idx < 0 || !r->set) return NULL;
	return jwks_item_get(r->set, (size_t)idx);
}
static json_t *kd_of_item(const jwk_item_t *it)
{
	if (!it) return NULL;
	for (int r = 0; r < MAXR; r++)
		for (int i = 0; i < rings[r].n; i++)
			if (rings[r].it[i].ptr == it) return rings[r].it[i].kd;
	return NULL;
}

static const char *kty_name(jwk_key_type_t t)
{
	switch (t) {
	case JWK_KEY_TYPE_EC: return "EC";
	case JWK_KEY_TYPE_RSA: return "RSA";
	case JWK_KEY_TYPE_OKP: return "OKP";
	case JWK_KEY_TYPE_OCT: return "oct";
	default: return "~";
	}
}
static const char *alg_name(jwt_alg_t a)
{
	const char *s;
	if (a == JWT_ALG_INVAL) return "INVAL";
	s = jwt_alg_str(a);
	return s ? s : "INVAL";
}
static jwt_alg_t alg_enum(const char *s)
{
	static const char *names[] = {"none","HS256","HS384","HS512","RS256","RS384","RS512","ES256","ES384","ES512","PS256","PS384","PS512","ES256K","EdDSA","INVAL"};
	for (int i = 0; i < 16; i++) if (!strcmp(names[i], s)) return (jwt_alg_t)i;
	if (!strncmp(s, "#", 1)) return (jwt_alg_t)atoi(s + 1);	/* out-of-range enum values */
	die("alg_enum %s", s);
	return JWT_ALG_INVAL;
}
static const char *verr_name(jwt_value_error_t e)
{
	switch (e) {
	case JWT_VALUE_ERR_NONE: return "NONE";
	case JWT_VALUE_ERR_EXIST: return "EXIST";
	case JWT_VALUE_ERR_NOEXIST: return "NOEXIST";
	case JWT_VALUE_ERR_TYPE: return "TYPE";
	case JWT_VALUE_ERR_INVALID: return "INVALID";
	case JWT_VALUE_ERR_NOMEM: return "NOMEM";
	default: return "OTHER";
	}
}

/* Which pool key / oct material does this imported item hold?  (C08)
 * Returns {"base","bits","var","pub":0/1 (public components equal),
 * "prv":0/1 (private components equal, or n/a=0)} by comparing the parsed PEM
 * (or the oct bytes) with the key the descriptor names. */
static json_t *project_mat_(const jwk_item_t *it, json_t *kd);
static json_t *project_mat(const jwk_item_t *it, json_t *kd)
{
	json_t *r;
	ERR_set_mark();
	r = project_mat_(it, kd);
	ERR_pop_to_mark();
	return r;
}
static json_t *project_mat_(const jwk_item_t *it, json_t *kd)
{
	json_t *m = json_object();
	const char *pem = jwks_item_pem(it);
	const unsigned char *ob = NULL; size_t ol = 0;
	int pub = 0, prv = 0, pemok = 0, pempriv = 0, octok = 0, pss = -1;
	const char *kty = kd ? jstr(kd, "kty", "~") : "~";
	if (jwks_item_kty(it) == JWK_KEY_TYPE_OCT) {
		if (!jwks_item_key_oct(it, &ob, &ol) && kd && !strcmp(kty, "oct")) {
			size_t len = (size_t)jint(kd, "bits", 0) / 8;
			unsigned char *b = malloc(len + 1);
			oct_bytes(b, len, jstr(kd, "var", "a"));
			octok = (len == ol && !memcmp(b, ob, len));
			free(b);
		}
		json_object_set_new(m, "octlen", json_integer((json_int_t)ol));
		pub = prv = octok;
	} else if (pem) {
		BIO *b = BIO_new_mem_buf(pem, -1);
		int haveref = kd && strcmp(kty, "oct") && strcmp(kty, "~") && strcmp(jstr(kd, "base", "~"), "rawobj") && strcmp(jstr(kd, "base", "~"), "?");
		EVP_PKEY *k = NULL, *ref = haveref ? pool_get(jstr(kd, "base", "~")) : NULL;
		if (strstr(pem, "PRIVATE KEY")) { k = PEM_read_bio_PrivateKey(b, NULL, NULL, NULL); pempriv = 1; }
		else k = PEM_read_bio_PUBKEY(b, NULL, NULL, NULL);
		BIO_free(b);
		if (k) pemok = 1;
		if (k && (EVP_PKEY_get_base_id(k) == EVP_PKEY_RSA || EVP_PKEY_get_base_id(k) == EVP_PKEY_RSA_PSS))
			pss = EVP_PKEY_get_base_id(k) == EVP_PKEY_RSA_PSS;
		if (k && !ref) { EVP_PKEY_free(k); k = NULL; }
		if (k) {
			/* EVP_PKEY_eq compares public components (and parameters) */
			/* rsaEncryption and id-RSASSA-PSS keys: the numbers are compared here, the type is reported as "pss" */
			int kb = EVP_PKEY_get_base_id(k), rb = EVP_PKEY_get_base_id(ref);
			if (kb == rb || ((kb == EVP_PKEY_RSA_PSS || kb == EVP_PKEY_RSA) && (rb == EVP_PKEY_RSA || rb == EVP_PKEY_RSA_PSS))) {
				if (kb == EVP_PKEY_RSA_PSS || rb == EVP_PKEY_RSA_PSS) {
					BIGNUM *n1 = NULL, *n2 = NULL, *e1 = NULL, *e2 = NULL;
					EVP_PKEY_get_bn_param(k, OSSL_PKEY_PARAM_RSA_N, &n1);
					EVP_PKEY_get_bn_param(ref, OSSL_PKEY_PARAM_RSA_N, &n2);
					EVP_PKEY_get_bn_param(k, OSSL_PKEY_PARAM_RSA_E, &e1);
					EVP_PKEY_get_bn_param(ref, OSSL_PKEY_PARAM_RSA_E, &e2);
					pub = n1 && n2 && e1 && e2 && !BN_cmp(n1, n2) && !BN_cmp(e1, e2);
					BN_free(n1); BN_free(n2); BN_free(e1); BN_free(e2);
				} else
					pub = EVP_PKEY_eq(k, ref) == 1;
			}
			if (pempriv) {
				/* compare private components */
				if (!strcmp(kty, "RSA")) {
					static const char *ps[] = {OSSL_PKEY_PARAM_RSA_D, OSSL_PKEY_PARAM_RSA_FACTOR1, OSSL_PKEY_PARAM_RSA_FACTOR2,
						OSSL_PKEY_PARAM_RSA_EXPONENT1, OSSL_PKEY_PARAM_RSA_EXPONENT2, OSSL_PKEY_PARAM_RSA_COEFFICIENT1};
					prv = 1;
					for (int i = 0; i < 6; i++) {
						BIGNUM *a = NULL, *c = NULL;
						EVP_PKEY_get_bn_param(k, ps[i], &a);
						EVP_PKEY_get_bn_param(ref, ps[i], &c);
						if (!a || !c || BN_cmp(a, c)) prv = 0;
						BN_free(a); BN_free(c);
					}
				} else if (!strcmp(kty, "EC")) {
					BIGNUM *a = NULL, *c = NULL;
					EVP_PKEY_get_bn_param(k, OSSL_PKEY_PARAM_PRIV_KEY, &a);
					EVP_PKEY_get_bn_param(ref, OSSL_PKEY_PARAM_PRIV_KEY, &c);
					prv = a && c && !BN_cmp(a, c);
					BN_free(a); BN_free(c);
				} else if (!strcmp(kty, "OKP")) {
					unsigned char b1[128], b2[128]; size_t n1 = sizeof b1, n2 = sizeof b2;
					prv = EVP_PKEY_get_raw_private_key(k, b1, &n1) == 1 &&
					      EVP_PKEY_get_raw_private_key(ref, b2, &n2) == 1 &&
					      n1 == n2 && !memcmp(b1, b2, n1);
				}
			}
			EVP_PKEY_free(k);
		}
		}
	json_object_set_new(m, "pem", json_integer(pem ? 1 : 0));
	json_object_set_new(m, "pemok", json_integer(pemok));
	json_object_set_new(m, "pempriv", json_integer(pempriv));
	json_object_set_new(m, "pub", json_integer(pub));
	json_object_set_new(m, "prv", json_integer(prv));
	if (pss >= 0) json_object_set_new(m, "pss", json_integer(pss));
	return m;
}

static json_t *ops_list(jwk_key_op_t o)
{
	static const struct { int bit; const char *n; } t[] = {
		{JWK_KEY_OP_SIGN,"sign"},{JWK_KEY_OP_VERIFY,"verify"},{JWK_KEY_OP_ENCRYPT,"encrypt"},
		{JWK_KEY_OP_DECRYPT,"decrypt"},{JWK_KEY_OP_WRAP,"wrapKey"},{JWK_KEY_OP_UNWRAP,"unwrapKey"},
		{JWK_KEY_OP_DERIVE_KEY,"deriveKey"},{JWK_KEY_OP_DERIVE_BITS,"deriveBits"}};
	json_t *a = json_array();
	for (unsigned i = 0; i < 8; i++) if (o & t[i].bit) json_array_append_new(a, json_string(t[i].n));
	return a;
}
static json_t *project_item(const jwk_item_t *it, int id, json_t *kd, int withmat)
{
	json_t *o = json_object();
	const char *kid = jwks_item_kid(it), *crv = jwks_item_curve(it), *msg = jwks_item_error_msg(it);
	jwk_pub_key_use_t u = jwks_item_use(it);
	json_object_set_new(o, "id", json_integer(id));
	json_object_set_new(o, "kty", json_string(kty_name(jwks_item_kty(it))));
	json_object_set_new(o, "bits", json_integer(jwks_item_key_bits(it)));
	json_object_set_new(o, "crv", jsn(crv));
	json_object_set_new(o, "priv", json_integer(jwks_item_is_private(it)));
	json_object_set_new(o, "alg", json_string(alg_name(jwks_item_alg(it))));
	if (kid && !is_plain_ascii(kid)) { char *h = hexenc((const unsigned char *)kid, strlen(kid)); json_object_set_new(o, "kidx", json_string(h)); free(h); json_object_set_new(o, "kid", json_string("#hex")); }
	else json_object_set_new(o, "kid", jsn(kid));
	json_object_set_new(o, "use", json_string(u == JWK_PUB_KEY_USE_SIG ? "sig" : u == JWK_PUB_KEY_USE_ENC ? "enc" : "~"));
	json_object_set_new(o, "ops", ops_list(jwks_item_key_ops(it)));
	json_object_set_new(o, "err", json_integer(jwks_item_error(it) ? 1 : 0));
	json_object_set_new(o, "msg", json_integer(msg && msg[0] ? 1 : 0));
	if (withmat) json_object_set_new(o, "mat", project_mat(it, kd));
	return o;
}

/* Re-read the real list; assign fresh ids to unseen pointers in list order;
 * kds[] (may be NULL) gives descriptors for new items in order of appearance.
 * Returns array of ids; if newitems != NULL, appends full projections of the
 * new items to it. */
static json_t *ring_sync(struct ring *r, json_t *kds, json_t *newitems, int withmat)
{
	json_t *ids = json_array();
	struct irec nu[MAXI];
	int nn = 0;
	size_t cnt = r->set ? jwks_item_count(r->set) : 0, newi = 0;
	const jwk_item_t *ptrs[MAXI];
	if (cnt > MAXI) die("ring too large");
	/* read the list from the last index down: the first get after a mutator asks for a HIGH index (an
	 * implementation that remembers where an earlier walk stopped must not be helped by a walk from 0) */
	for (size_t i = cnt; i-- > 0; ) ptrs[i] = jwks_item_get(r->set, i);
	for (size_t i = 0; i < cnt; i++) {
		const jwk_item_t *p = ptrs[i];
		int found = -1;
		for (int j = 0; j < r->n; j++) if (r->it[j].ptr == p) found = j;
		if (found >= 0) { nu[nn] = r->it[found]; r->it[found].kd = NULL; }
		else {
			nu[nn].ptr = p; nu[nn].id = next_item_id++;
			nu[nn].kd = kds && newi < json_array_size(kds) ? json_incref(json_array_get(kds, newi)) : NULL;
			newi++;
			if (newitems) json_array_append_new(newitems, project_item(p, nu[nn].id, nu[nn].kd, withmat));
		}
		json_array_append_new(ids, json_integer(nu[nn].id));
		nn++;
	}
	for (int j = 0; j < r->n; j++) if (r->it[j].kd) json_decref(r->it[j].kd);
	memcpy(r->it, nu, sizeof(struct irec) * nn);
	r->n = nn;
	return ids;
}
/* cheap per-item flags in list order: [[id, kid, err], ...] */
static json_t *ring_flags(struct ring *r)
{
	json_t *a = json_array();
	for (int i = 0; i < r->n; i++) {
		const char *kid = jwks_item_kid(r->it[i].ptr);
		json_array_append_new(a, json_pack("[iso]", r->it[i].id, kid ? kid : "~",
			json_integer(jwks_item_error(r->it[i].ptr) ? 1 : 0)));
	}
	return a;
}

/* ==================================================== map projections */
/* one member -> [name, type, s, w] (uniform shape for TLC) */
static json_t *mem4(const char *name, const char *t, const char *sv, json_t *w)
{
	return json_pack("[ssso]", name, t, sv, w ? w : wide(0));
}
static json_t *project_member(const char *name, json_t *v)
{
	json_t *t;
	char *s;
	switch (json_typeof(v)) {
	case JSON_INTEGER:
		return mem4(name, "int", "", wide((int64_t)json_integer_value(v)));
	case JSON_STRING:
		if (is_plain_ascii(json_string_value(v)) && json_string_length(v) == strlen(json_string_value(v)) && json_string_length(v) < 200)
			return mem4(name, "str", json_string_value(v), NULL);
		s = hexenc((const unsigned char *)json_string_value(v), json_string_length(v));
		t = mem4(name, "strx", s, NULL);
		free(s);
		return t;
	case JSON_TRUE: return mem4(name, "bool", "true", NULL);
	case JSON_FALSE: return mem4(name, "bool", "false", NULL);
	case JSON_NULL: return mem4(name, "null", "null", NULL);
	case JSON_REAL: { char rb[40]; snprintf(rb, sizeof rb, "%.17g", json_real_value(v)); return mem4(name, "real", rb, NULL); }	/* every digit that matters */
	case JSON_OBJECT:
	case JSON_ARRAY:
		s = json_dumps(v, JSON_COMPACT | JSON_SORT_KEYS | JSON_ENSURE_ASCII);
		t = mem4(name, json_is_object(v) ? "obj" : "arr", s, NULL);
		free(s);
		return t;
	}
	return mem4(name, "?", "?", NULL);
}
static json_t *marker_list(const char *why)
{
	json_t *a = json_array();
	json_array_append_new(a, mem4(why, "#", "", NULL));
	return a;
}
static int name_ok(const char *n) { return is_plain_ascii(n) && strlen(n) < 100; }
/* text of a JSON object -> sorted list of members, or the string "#<why>" */
static json_t *project_objtext(const char *text, size_t len)
{
	json_error_t e;
	json_t *o = json_loadb(text, len, JSON_DECODE_ANY | JSON_ALLOW_NUL, &e), *a;
	const char *k; json_t *v;
	void *it;
	if (!o) return marker_list("#notjson");
	if (!json_is_object(o)) { json_decref(o); return marker_list("#notobj"); }
	a = json_array();
	/* sorted iteration */
	{
		size_t n = json_object_size(o), i = 0;
		const char **keys = malloc(sizeof(char *) * (n + 1));
		for (it = json_object_iter(o); it; it = json_object_iter_next(o, it)) keys[i++] = json_object_iter_key(it);
		for (size_t x = 1; x < n; x++) for (size_t y = x; y > 0 && strcmp(keys[y - 1], keys[y]) > 0; y--) { const char *tk = keys[y]; keys[y] = keys[y - 1]; keys[y - 1] = tk; }
		for (i = 0; i < n; i++) {
			k = keys[i]; v = json_object_get(o, k);
			if (name_ok(k)) json_array_append_new(a, project_member(k, v));
			else { char *h = hexenc((const unsigned char *)k, strlen(k)); char *nn = malloc(strlen(h) + 8); sprintf(nn, "#hex:%s", h); json_array_append_new(a, project_member(nn, v)); free(h); free(nn); }
		}
		free(keys);
	}
	json_decref(o);
	return a;
}
/* canonical digest of a JSON text (sorted, compact, ascii) for C05 */
static json_t *json_digest(const char *text, size_t len)
{
	json_error_t e;
	json_t *o = json_loadb(text, len, JSON_DECODE_ANY | JSON_ALLOW_NUL, &e);
	char *s, *h; unsigned char d[32]; json_t *r;
	if (!o) return json_string("#notjson");
	s = json_dumps(o, JSON_COMPACT | JSON_SORT_KEYS | JSON_ENSURE_ASCII | JSON_ENCODE_ANY);
	SHA256((unsigned char *)s, strlen(s), d);
	h = hexenc(d, 32);
	r = json_string(h);
	free(h); free(s); json_decref(o);
	return r;
}

/* C05: digest of a JSON object text without the members the library adds
 * (header: alg, typ; claims: iat, nbf, exp), and those members as a list */
static void split_lib_members(const char *text, size_t len, int ishdr, json_t **rest_digest, json_t **small)
{
	json_error_t e;
	json_t *o = json_loadb(text, len, JSON_ALLOW_NUL, &e);
	static const char *hn[] = {"alg", "typ", NULL}, *cn[] = {"exp", "iat", "nbf", NULL};
	const char **names = ishdr ? hn : cn;
	char *s; unsigned char d[32]; char *h;
	*small = json_array();
	if (!o || !json_is_object(o)) { if (o) json_decref(o); *rest_digest = json_string("#notobj"); return; }
	for (int i = 0; names[i]; i++) {
		json_t *v = json_object_get(o, names[i]);
		if (v) { json_array_append_new(*small, project_member(names[i], v)); json_object_del(o, names[i]); }
	}
	s = json_dumps(o, JSON_COMPACT | JSON_SORT_KEYS | JSON_ENSURE_ASCII);
	SHA256((unsigned char *)s, strlen(s), d);
	h = hexenc(d, 16);
	*rest_digest = json_string(h);
	free(h); free(s); json_decref(o);
}
static void add_split(json_t *ev, const char *text, size_t len, int ishdr, const char *restname, const char *smallname)
{
	json_t *r, *sm;
	split_lib_members(text, len, ishdr, &r, &sm);
	json_object_set_new(ev, restname, r);
	json_object_set_new(ev, smallname, sm);
}

/* the library frees with its own allocator: json getter results come from
 * jansson's allocator, which jwt_set_alloc may have redirected */
static void lib_free(void *p)
{
	jwt_malloc_t m; jwt_free_t f;
	jwt_get_alloc(&m, &f);
	if (f) f(p); else free(p);
}

/* ======================================================= fault allocator */
static volatile long alloc_count, alloc_fail_at = -1;
static volatile int alloc_armed, alloc_failed;
static char fault_site[64] = "~";
static size_t fault_size;
#include <execinfo.h>
#include <dlfcn.h>
/* which module asked for the allocation that is made to fail: the first frame
 * above jwt_malloc/drv_malloc that is not in this executable is "jansson" etc.;
 * otherwise it is libjwt itself (statically linked into the driver) */
#ifdef DRV_ASAN
void __sanitizer_symbolize_pc(void *pc, const char *fmt, char *out_buf, size_t out_buf_size);
#endif
static char fault_stack[400] = "~";
static void record_fault_site(size_t n)
{
	void *bt[16];
	int d = backtrace(bt, 16);
	fault_size = n;
#ifdef DRV_ASAN
	{
		size_t off = 0;
		fault_stack[0] = 0;
		for (int i = 2; i < d && i < 12 && off + 60 < sizeof fault_stack; i++) {
			char fn[128] = "";
			__sanitizer_symbolize_pc((char *)bt[i] - 1, "%f", fn, sizeof fn);
			if (!strcmp(fn, "jwt_malloc") || !strcmp(fn, "drv_malloc") || !fn[0]) continue;
			if (!strcmp(fn, "run_op") || !strcmp(fn, "generic_cb") || !strcmp(fn, "map_op") || !strncmp(fn, "op_", 3) || !strcmp(fn, "apply_cfg")) break;
			off += snprintf(fault_stack + off, sizeof fault_stack - off, "%s%s", off ? "<" : "", fn);
		}
	}
#endif
	snprintf(fault_site, sizeof fault_site, "libjwt");
	for (int i = 1; i < d && i < 6; i++) {
		Dl_info di;
		if (dladdr(bt[i], &di) && di.dli_fname) {
			const char *b = strrchr(di.dli_fname, '/');
			b = b ? b + 1 : di.dli_fname;
			if (strstr(b, "jansson")) { snprintf(fault_site, sizeof fault_site, "jansson"); return; }
			if (strstr(b, "libcrypto") || strstr(b, "libssl")) { snprintf(fault_site, sizeof fault_site, "openssl"); return; }
			if (strstr(b, "gnutls")) { snprintf(fault_site, sizeof fault_site, "gnutls"); return; }
		}
	}
}
/* --track-alloc: the application's allocator is not libc's.  Every block handed out through jwt_set_alloc's
 * malloc is remembered; a block passed to its free from inside a library call that it never handed out was
 * allocated by someone else (OpenSSL, libc directly): with a real custom allocator that corrupts the heap. */
static int track_alloc;
#define TRK_N (1u << 21)
/* addresses are kept complemented, so that LeakSanitizer does not take the table for references to the blocks */
static uintptr_t trk_tab[TRK_N];
static unsigned trk_slot(void *p) { return (unsigned)(((uintptr_t)p >> 4) * 2654435761u) & (TRK_N - 1); }
static long trk_live;	/* blocks handed out and not yet returned to drv_free */
static void trk_add(void *p)
{
	unsigned i = trk_slot(p);
	uintptr_t v = ~(uintptr_t)p;
	for (unsigned n = 0; n < TRK_N; n++, i = (i + 1) & (TRK_N - 1))
		if (!trk_tab[i] || trk_tab[i] == 1 || trk_tab[i] == v) {
			if (trk_tab[i] != v) trk_live++;	/* (an address still in the table was released behind the allocator's back) */
			trk_tab[i] = v;
			return;
		}
}
static int trk_del(void *p)
{
	unsigned i = trk_slot(p);
	uintptr_t v = ~(uintptr_t)p;
	for (unsigned n = 0; n < TRK_N && trk_tab[i]; n++, i = (i + 1) & (TRK_N - 1))
		if (trk_tab[i] == v) { trk_tab[i] = 1; trk_live--; return 1; }
	return 0;
}
/* what a fresh block holds is nobody's business: under --track-alloc it changes from block to block (blank, NUL,
 * '}', 'A', 0xbe, '"' in turn, restarted at every case so that a case replays alone as it ran in a batch) */
static unsigned fill_turn;
static void *drv_malloc_raw(size_t n)
{
	void *p = malloc(n);
	if (p && track_alloc) {
		static const unsigned char fill[] = {0x20, 0x00, 0x7d, 0x41, 0xbe, 0x22};
		memset(p, fill[fill_turn++ % sizeof fill], n);
		trk_add(p);
	}
	return p;
}
static void *drv_malloc(size_t n)
{
	if (alloc_armed) {
		long k = __sync_fetch_and_add(&alloc_count, 1);
		if (k == alloc_fail_at) {
			int sv = alloc_armed;
			alloc_armed = 0;
			record_fault_site(n);
			alloc_armed = sv;
			alloc_failed = 1;
			return NULL;
		}
	}
	return drv_malloc_raw(n);
}
static void drv_free(void *p)
{
	if (track_alloc && p && !trk_del(p) && in_lib) {
		emit_abort("foreign-free");	/* a block this allocator never handed out was passed to its free() */
		_exit(66);
	}
	free(p);
}
static int fault_mode;
/* arm the fault allocator exactly for the duration of one library call */
#define LIB(expr) ({ int _sv = alloc_armed; alloc_armed = fault_mode; in_lib++; __typeof__(expr) _r = (expr); in_lib--; alloc_armed = _sv; _r; })
#define LIBV(stmt) do { int _sv = alloc_armed; alloc_armed = fault_mode; in_lib++; stmt; in_lib--; alloc_armed = _sv; } while (0)

/* ========================================================= value ops */
/* Fill a jwt_value_t from a value descriptor.  Returns storage to free. */
struct vstore { char *name; char *s; };
static void vstore_free(struct vstore *vs) { free(vs->name); free(vs->s); }
static unsigned stale_turn;	/* reset at every case, so that a case replays alone exactly as in a batch */
static void fill_value(jwt_value_t *jv, json_t *v, struct vstore *vs, int set)
{
	const char *t = jstr(v, "t", "int");
	const char *name = jstr(v, "name", "~");
	json_t *val = json_object_get(v, "val");
	memset(jv, 0, sizeof *jv);
	memset(vs, 0, sizeof *vs);
	/* a reused struct: whatever the previous request left in the value union is still there when a
	 * narrower member (int bool_val) is assigned - only the member of the request's type is written below */
	jv->int_val = (stale_turn & 1) ? -1L : (long)0x7fffffff00000000LL;
	if (!strcmp(name, "~")) jv->name = NULL;
	else if (!strncmp(name, "#hex:", 5)) { size_t n; vs->name = (char *)hexdec(name + 5, &n); jv->name = vs->name; }
	else { vs->name = strdup(name); jv->name = vs->name; }
	jv->replace = (int)jint(v, "replace", 0);
	jv->pretty = (int)jint(v, "pretty", 0);
	if (!strcmp(t, "int")) {
		jv->type = JWT_VALUE_INT;
		if (!set) jv->int_val = 0;	/* what jwt_set_GET_INT does */
		if (set) jv->int_val = json_is_array(val) ? (long)unwide(val) : (long)json_integer_value(val);
	} else if (!strcmp(t, "str")) {
		jv->type = JWT_VALUE_STR;
		if (!set) jv->str_val = NULL;	/* what jwt_set_GET_STR does */
		if (set) {
			const char *s = json_is_string(val) ? json_string_value(val) : "~";
			if (!strcmp(s, "~")) jv->str_val = NULL;
			else if (!strncmp(s, "#hex:", 5)) { size_t n; vs->s = (char *)hexdec(s + 5, &n); jv->str_val = vs->s; }
			else { vs->s = strdup(s); jv->str_val = vs->s; }
		}
	} else if (!strcmp(t, "bool")) {
		jv->type = JWT_VALUE_BOOL;
		if (!set) jv->bool_val = 0;	/* what jwt_set_GET_BOOL does: the int member only */
		if (set) jv->bool_val = (int)json_integer_value(val);
	} else if (!strcmp(t, "json")) {
		jv->type = JWT_VALUE_JSON;
		if (!set) jv->json_val = NULL;	/* what jwt_set_GET_JSON does */
		if (set) {
			const char *s = json_is_string(val) ? json_string_value(val) : "~";
			if (!strcmp(s, "~")) jv->json_val = NULL;
			else if (!strncmp(s, "#hex:", 5)) { size_t n; vs->s = (char *)hexdec(s + 5, &n); jv->json_val = vs->s; }
			else { vs->s = strdup(s); jv->json_val = vs->s; }
		}
	} else if (!strncmp(t, "#", 1)) {
		jv->type = (jwt_value_type_t)atoi(t + 1);
	} else die("value type %s", t);
	/* an application that fills the public struct by hand and reuses it carries the previous call's
	 * error in it: the request's outcome must not depend on that (stale values rotate deterministically) */
	{
		static const jwt_value_error_t stale[] = { JWT_VALUE_ERR_EXIST, JWT_VALUE_ERR_NONE, JWT_VALUE_ERR_NOEXIST,
							   JWT_VALUE_ERR_TYPE, JWT_VALUE_ERR_INVALID, JWT_VALUE_ERR_NOMEM };
		jv->error = stale[stale_turn++ % (sizeof stale / sizeof stale[0])];
	}
}
/* project what a getter returned: [t, s, w]; a whole-map JSON get also
 * yields the member list through *mapout */
static json_t *got3(const char *t, const char *sv, json_t *w)
{
	return json_pack("[sso]", t, sv, w ? w : wide(0));
}
static json_t *project_got(jwt_value_t *jv, jwt_value_error_t ret, json_t **mapout)
{
	json_t *r;
	*mapout = NULL;
	if (ret != JWT_VALUE_ERR_NONE) return got3("~", "~", NULL);
	switch (jv->type) {
	case JWT_VALUE_INT: return got3("int", "", wide(jv->int_val));
	case JWT_VALUE_STR:
		if (!jv->str_val) return got3("str", "~NULL", NULL);
		if (is_plain_ascii(jv->str_val) && strlen(jv->str_val) < 200) return got3("str", jv->str_val, NULL);
		{ char *h = hexenc((const unsigned char *)jv->str_val, strlen(jv->str_val)); r = got3("strx", h, NULL); free(h); return r; }
	case JWT_VALUE_BOOL: return got3("bool", jv->bool_val ? "true" : "false", NULL);
	case JWT_VALUE_JSON:
		if (!jv->json_val) return got3("json", "~NULL", NULL);
		{
			json_error_t e;
			json_t *o = json_loads(jv->json_val, JSON_DECODE_ANY, &e);
			char *s;
			if (!o) return got3("json", "#notjson", NULL);
			s = json_dumps(o, JSON_COMPACT | JSON_SORT_KEYS | JSON_ENSURE_ASCII | JSON_ENCODE_ANY);
			if (json_is_object(o) && (!jv->name || !jv->name[0])) { *mapout = project_objtext(jv->json_val, strlen(jv->json_val)); r = got3("wholemap", "", NULL); }
			else r = got3(json_is_object(o) ? "obj" : json_is_array(o) ? "arr" : "scalar", s, NULL);
			free(s);
			json_decref(o);
			return r;
		}
	default: return got3("?", "?", NULL);
	}
}

/* whole map of a builder/jwt via the nameless JSON getter */
typedef jwt_value_error_t (*getter_fn)(void *, jwt_value_t *);
static json_t *whole_map(void *obj, getter_fn g)
{
	jwt_value_t jv;
	json_t *r;
	jwt_set_GET_JSON(&jv, NULL);
	if (g(obj, &jv) != JWT_VALUE_ERR_NONE || !jv.json_val) return marker_list("#geterr");
	r = project_objtext(jv.json_val, strlen(jv.json_val));
	lib_free(jv.json_val);
	return r;
}
static jwt_value_error_t g_bh(void *o, jwt_value_t *v) { return jwt_builder_header_get(o, v); }
static jwt_value_error_t g_bc(void *o, jwt_value_t *v) { return jwt_builder_claim_get(o, v); }
static jwt_value_error_t g_jh(void *o, jwt_value_t *v) { return jwt_header_get(o, v); }
static jwt_value_error_t g_jc(void *o, jwt_value_t *v) { return jwt_claim_get(o, v); }
static jwt_value_error_t s_bh(void *o, jwt_value_t *v) { return jwt_builder_header_set(o, v); }
static jwt_value_error_t s_bc(void *o, jwt_value_t *v) { return jwt_builder_claim_set(o, v); }
static jwt_value_error_t s_jh(void *o, jwt_value_t *v) { return jwt_header_set(o, v); }
static jwt_value_error_t s_jc(void *o, jwt_value_t *v) { return jwt_claim_set(o, v); }
typedef jwt_value_error_t (*del_fn)(void *, const char *);
static jwt_value_error_t d_bh(void *o, const char *n) { return jwt_builder_header_del(o, n); }
static jwt_value_error_t d_bc(void *o, const char *n) { return jwt_builder_claim_del(o, n); }
static jwt_value_error_t d_jh(void *o, const char *n) { return jwt_header_del(o, n); }
static jwt_value_error_t d_jc(void *o, const char *n) { return jwt_claim_del(o, n); }

/* perform a map op ("set"/"get"/"del") on target kind: 0 builder, 1 jwt_t */
static void map_op(json_t *ev, void *obj, int isjwt, const char *k, const char *which, json_t *v, int wantmap)
{
	int hdr = !strcmp(which, "hdr");
	getter_fn g = isjwt ? (hdr ? g_jh : g_jc) : (hdr ? g_bh : g_bc);
	getter_fn s = isjwt ? (hdr ? s_jh : s_jc) : (hdr ? s_bh : s_bc);
	del_fn d = isjwt ? (hdr ? d_jh : d_jc) : (hdr ? d_bh : d_bc);
	jwt_value_t jv; struct vstore vs;
	jwt_value_error_t ret;
	if (!strcmp(k, "set")) {
		fill_value(&jv, v, &vs, 1);
		ret = LIB(s(obj, &jv));
		json_object_set_new(ev, "ret", json_string(verr_name(ret)));
		json_object_set_new(ev, "verr", json_string(verr_name(jv.error)));
		vstore_free(&vs);
	} else if (!strcmp(k, "get")) {
		fill_value(&jv, v, &vs, 0);
		ret = LIB(g(obj, &jv));
		json_object_set_new(ev, "ret", json_string(verr_name(ret)));
		json_object_set_new(ev, "verr", json_string(verr_name(jv.error)));
		{ json_t *mo = NULL; json_object_set_new(ev, "got", project_got(&jv, ret, &mo)); json_object_set_new(ev, "gotmap", mo ? mo : json_array()); }
		if (jv.type == JWT_VALUE_JSON && jv.json_val) lib_free(jv.json_val);
		vstore_free(&vs);
	} else if (!strcmp(k, "del")) {
		const char *name = jstr(v, "name", "~");
		ret = LIB(d(obj, is_none(name) ? NULL : name));
		json_object_set_new(ev, "ret", json_string(verr_name(ret)));
	} else die("map op %s", k);
	if (wantmap) {
		json_object_set_new(ev, "hdr", whole_map(obj, isjwt ? g_jh : g_bh));
		json_object_set_new(ev, "clm", whole_map(obj, isjwt ? g_jc : g_bc));
	}
}

/* ======================================================= callbacks */
struct cbctx { json_t *prog; json_t *res; int ran; };
static int generic_cb(jwt_t *jwt, jwt_config_t *config)
{
	struct cbctx *cx = config->ctx;
	size_t i; json_t *st;
	int ret = 0;
	int armed = alloc_armed;
	if (!cx) return 0;
	cx->ran++;
	alloc_armed = 0;	/* bookkeeping below is the driver's, not the library's; LIB() re-arms per call */
	json_array_foreach(cx->prog, i, st) {
		const char *k = jstr(st, "k", "?");
		json_t *r = json_object();
		json_object_set_new(r, "k", json_string(k));
		if (!strcmp(k, "set") || !strcmp(k, "get") || !strcmp(k, "del")) {
			map_op(r, jwt, 1, k, jstr(st, "which", "clm"), json_object_get(st, "v"), fault_mode ? 0 : (int)jint(st, "map", 1));
			/* under fault injection the program behaves like a careful application:
			 * a step that reports failure makes the callback return non-zero */
			if (fault_mode && alloc_failed && strcmp(jstr(r, "ret", "NONE"), "NONE")) {
				json_array_append_new(cx->res, r);
				ret = 1;
				break;
			}
		} else if (!strcmp(k, "key")) {
			config->key = item_at(st);
		} else if (!strcmp(k, "alg")) {
			config->alg = alg_enum(jstr(st, "alg", "none"));
		} else if (!strcmp(k, "ret")) {
			ret = (int)jint(st, "ret", 1);
		} else if (!strcmp(k, "read")) {
			/* log header and claims as seen by the callback */
			jwt_value_t jv;
			if (jint(st, "full", 0)) {
				json_object_set_new(r, "hdr", whole_map(jwt, g_jh));
				json_object_set_new(r, "clm", whole_map(jwt, g_jc));
			}
			json_object_set_new(r, "alg", json_string(alg_name(jwt_get_alg(jwt))));
			jwt_set_GET_JSON(&jv, NULL);
			if (jwt_header_get(jwt, &jv) == JWT_VALUE_ERR_NONE && jv.json_val) { add_split(r, jv.json_val, strlen(jv.json_val), 1, "hrest", "hsmall"); lib_free(jv.json_val); }
			else { json_object_set_new(r, "hrest", json_string("#geterr")); json_object_set_new(r, "hsmall", json_array()); }
			jwt_set_GET_JSON(&jv, NULL);
			if (jwt_claim_get(jwt, &jv) == JWT_VALUE_ERR_NONE && jv.json_val) { add_split(r, jv.json_val, strlen(jv.json_val), 0, "crest", "csmall"); lib_free(jv.json_val); }
			else { json_object_set_new(r, "crest", json_string("#geterr")); json_object_set_new(r, "csmall", json_array()); }
			json_object_set_new(r, "cfgalg", json_string(alg_name(config->alg)));
			json_object_set_new(r, "cfgkey", json_integer(config->key ? 1 : 0));
		} else die("cb step %s", k);
		json_array_append_new(cx->res, r);
	}
	alloc_armed = armed;
	return ret;
}

/* ================================================================= tokens */
/* claim descriptor list: [[name, type, val]...] -> json object text */
/* "#long:<n>:<tail>" stands for <n> times 'a' followed by <tail> (strings too long to write out in a descriptor) */
static char *expand_long(const char *sv)
{
	if (sv && !strncmp(sv, "#long:", 6)) {
		char *end; long n = strtol(sv + 6, &end, 10);
		if (*end == ':' && n >= 0 && n < 1000000) {
			char *r = malloc((size_t)n + strlen(end + 1) + 1);
			memset(r, 'a', (size_t)n);
			strcpy(r + n, end + 1);
			return r;
		}
	}
	return NULL;
}
static json_t *claim_value(const char *t, const char *sv, json_t *w)
{
	if (!strcmp(t, "int")) return json_integer(unwide(w));
	if (!strcmp(t, "str")) { char *x = expand_long(sv); json_t *r = json_string(x ? x : sv); free(x); return r; }
	if (!strcmp(t, "strx")) { size_t n; unsigned char *b = hexdec(sv, &n); json_t *r = json_stringn_nocheck((char *)b, n); free(b); return r; }
	if (!strcmp(t, "bool")) return json_boolean(!strcmp(sv, "true"));
	if (!strcmp(t, "null")) return json_null();
	if (!strcmp(t, "real")) return json_real(1700000000.5);
	if (!strcmp(t, "obj") || !strcmp(t, "arr")) { json_error_t e; json_t *r = json_loads(sv, 0, &e); return r ? r : json_null(); }
	if (!strcmp(t, "intstr")) { char b[32]; snprintf(b, sizeof b, "%lld", (long long)unwide(w)); return json_string(b); }
	if (!strcmp(t, "realint")) return json_real((double)unwide(w));
	die("claim type %s", t);
	return NULL;
}
static json_t *mem_value(json_t *p)
{
	return claim_value(json_string_value(json_array_get(p, 1)), json_string_value(json_array_get(p, 2)), json_array_get(p, 3));
}
static char *members_text(json_t *lst, int pretty)
{
	json_t *o = json_object();
	size_t i; json_t *p; char *s;
	json_array_foreach(lst, i, p) {
		const char *n = json_string_value(json_array_get(p, 0));
		json_object_set_new(o, n, mem_value(p));
	}
	s = json_dumps(o, (pretty ? JSON_INDENT(1) : JSON_COMPACT) | JSON_PRESERVE_ORDER);
	json_decref(o);
	return s;
}

/* segment text for a class */
static char *segment_for(const char *cls, json_t *members, const char *algspell, int ishdr)
{
	char *js = NULL, *seg;
	if (!strcmp(cls, "obj") || !strcmp(cls, "objws") || !strcmp(cls, "objnc")) {
		json_t *lst = members ? json_deep_copy(members) : json_array();
		if (ishdr && algspell && strcmp(algspell, "~")) {
			/* alg spelling classes: "#int", "#null", "#bool", "#arr", "#obj" are non-strings */
			json_t *o = json_object(); size_t i; json_t *p;
			if (!strcmp(algspell, "#int")) json_object_set_new(o, "alg", json_integer(256));
			else if (!strcmp(algspell, "#null")) json_object_set_new(o, "alg", json_null());
			else if (!strcmp(algspell, "#bool")) json_object_set_new(o, "alg", json_true());
			else if (!strcmp(algspell, "#arr")) json_object_set_new(o, "alg", json_pack("[s]", "HS256"));
			else if (!strcmp(algspell, "#obj")) json_object_set_new(o, "alg", json_pack("{s:s}", "alg", "HS256"));
			else if (!strcmp(algspell, "#real")) json_object_set_new(o, "alg", json_real(2.5));
			else if (strstr(algspell, "#0")) {
				/* "#0" stands for the character U+0000 (dumped as the escape \u0000) */
				size_t n = strlen(algspell), w = 0; char *tmp = malloc(n + 1);
				for (size_t r = 0; r < n; r++) {
					if (algspell[r] == '#' && algspell[r + 1] == '0') { tmp[w++] = 0; r++; }
					else tmp[w++] = algspell[r];
				}
				json_object_set_new(o, "alg", json_stringn_nocheck(tmp, w));
				free(tmp);
			} else { char *xl = expand_long(algspell); json_object_set_new(o, "alg", json_string(xl ? xl : algspell)); free(xl); }
			json_array_foreach(lst, i, p)
				json_object_set_new(o, json_string_value(json_array_get(p, 0)), mem_value(p));
			js = json_dumps(o, (!strcmp(cls, "objws") ? JSON_INDENT(2) : JSON_COMPACT) | JSON_PRESERVE_ORDER);
			json_decref(o);
		} else
			js = members_text(lst, !strcmp(cls, "objws"));
		json_decref(lst);
	} else if (!strcmp(cls, "notjson")) js = strdup("{\"alg\":\"HS256\",");
	else if (!strcmp(cls, "arr")) js = strdup("[\"alg\",\"HS256\"]");
	else if (!strcmp(cls, "scalar")) js = strdup("12345");
	else if (!strcmp(cls, "strjson")) js = strdup("\"alg\"");
	else if (!strcmp(cls, "nulljson")) js = strdup("null");
	else if (!strcmp(cls, "emptyobj")) js = strdup("{}");
	else if (!strcmp(cls, "notb64")) return strdup("eyJ*bGci!iJI#zI1NiJ9");	/* foreign bytes */
	else if (!strcmp(cls, "len1mod4")) return strdup("eyJhbGciOiJIUzI1NiJ9A");	/* 21 chars */
	else if (!strcmp(cls, "empty")) return strdup("");
	else if (!strcmp(cls, "dupkeys")) js = strdup("{\"alg\":\"none\",\"alg\":\"HS256\"}");
	else die("segment class %s", cls);
	if (!strcmp(cls, "objnc") && strlen(js) % 3 == 0) {	/* make room for unused bits: JSON may end in white space */
		js = realloc(js, strlen(js) + 2);
		strcat(js, " ");
	}
	seg = b64u_enc((unsigned char *)js, strlen(js));
	if (!strcmp(cls, "objnc") && seg[0]) {
		/* the same octets, not canonically encoded: the bits of the last character that encode nothing are not zero */
		static const char abc[] = "ABCDEFGHIJKLMNOPQRSTUVWXYZabcdefghijklmnopqrstuvwxyz0123456789-_";
		char *last = seg + strlen(seg) - 1;
		const char *q = strchr(abc, *last);
		if (q) *last = abc[(q - abc) | (strlen(js) % 3 == 1 ? 2 : 1)];
	}
	free(js);
	return seg;
}

struct opsthr { const char *name; int ret; char seen[32]; };
static void *opsthr_main(void *p)
{
	struct opsthr *a = p;
	if (strcmp(a->name, "~")) a->ret = jwt_set_crypto_ops(a->name);
	snprintf(a->seen, sizeof a->seen, "%s", jwt_get_crypto_ops());
	return NULL;
}

/* Build a token string from a descriptor.  Also returns through *info a json
 * object with concretisation details (lengths, positions) for the log. */
static char *forge_token(json_t *td, json_t *info)
{
	const char *src = jstr(td, "src", "forge");
	const char *shape;
	json_t *hd, *pd, *sd;
	char *hseg, *pseg, *text, *sigseg = NULL, *tok;
	unsigned char *presig = NULL; size_t presig_len = 0;
	size_t tlen;

	if (!strcmp(src, "slot")) {
		long s = jint(td, "slot", 0);
		if (s < 0 || s >= MAXSLOT || !slots[s]) return NULL;
		return strdup(slots[s]);
	}
	if (!strcmp(src, "raw")) {
		size_t n; unsigned char *b = hexdec(jstr(td, "hex", ""), &n);
		return (char *)b;
	}
	if (!strcmp(src, "lit")) return strdup(jstr(td, "text", ""));
	if (!strcmp(src, "mut")) {
		/* byte-level mutations of a token kept in a slot: [[kind, pos_ppm, byte], ...] */
		long sl = jint(td, "slot", 0);
		json_t *muts = json_object_get(td, "muts"), *m; size_t i;
		char *t; size_t n;
		if (sl < 0 || sl >= MAXSLOT || !slots[sl]) return strdup("");
		size_t cap;
		n = strlen(slots[sl]);
		cap = 2 * n + 140000;
		t = malloc(cap + 16);
		memcpy(t, slots[sl], n + 1);
		json_array_foreach(muts, i, m) {
			const char *k = json_string_value(json_array_get(m, 0));
			size_t pos = n ? (size_t)((double)json_integer_value(json_array_get(m, 1)) / 1000000.0 * n) : 0;
			int b = (int)json_integer_value(json_array_get(m, 2));
			if (pos > n) pos = n;
			if (!strcmp(k, "set") && pos < n) t[pos] = (char)b;
			else if (!strcmp(k, "del") && pos < n) { memmove(t + pos, t + pos + 1, n - pos); n--; }
			else if (!strcmp(k, "ins") && n + 1 < cap) { memmove(t + pos + 1, t + pos, n - pos + 1); t[pos] = (char)b; n++; }
			else if (!strcmp(k, "trunc")) { n = pos; t[n] = 0; }
			else if (!strcmp(k, "pad")) { size_t add = (size_t)b * 256; if (add > 66000) add = 66000; if (n + add < cap) { memset(t + n, 'A' + (int)(pos % 26), add); n += add; t[n] = 0; } }
			else if (!strcmp(k, "dup") && 2 * n < cap) { memcpy(t + n, t, n); n *= 2; t[n] = 0; }
			if (n == 0) t[0] = 0;
		}
		t[n] = 0;
		return t;
	}
	shape = jstr(td, "shape", "3seg");
	if (!strcmp(shape, "null")) return NULL;
	if (!strcmp(shape, "empty")) return strdup("");
	hd = json_object_get(td, "hdr"); pd = json_object_get(td, "pay"); sd = json_object_get(td, "sig");
	hseg = segment_for(jstr(hd, "cls", "obj"), json_object_get(hd, "m"), jstr(hd, "alg", "~"), 1);
	pseg = segment_for(jstr(pd, "cls", "obj"), json_object_get(pd, "m"), NULL, 0);
	tlen = strlen(hseg) + strlen(pseg) + 1;
	text = malloc(tlen + 1);
	sprintf(text, "%s.%s", hseg, pseg);

	/* "zerohead" / "zerotail" (HS*): the header gets a member "z" with the first counter value for which the
	 * genuine MAC begins with / contains a zero octet; the signature offered equals the MAC up to and including
	 * that octet and differs in every octet after it (a comparison that stops at a zero octet accepts it) */
	if (!strcmp(jstr(sd, "cls", "empty"), "zerohead") || !strcmp(jstr(sd, "cls", "empty"), "zerotail")) {
		int head = !strcmp(jstr(sd, "cls", "empty"), "zerohead");
		for (int i = 0; i < 200000 && !presig; i++) {
			json_t *m2 = json_object_get(hd, "m") ? json_deep_copy(json_object_get(hd, "m")) : json_array();
			char *h2, *t2; size_t l2, ml = 0; unsigned char *mac;
			json_array_append_new(m2, json_pack("[ssso]", "z", "int", "", wide(i)));
			h2 = segment_for(jstr(hd, "cls", "obj"), m2, jstr(hd, "alg", "~"), 1);
			json_decref(m2);
			l2 = strlen(h2) + strlen(pseg) + 1;
			t2 = malloc(l2 + 1);
			sprintf(t2, "%s.%s", h2, pseg);
			mac = kd_sign(json_object_get(sd, "key"), jstr(sd, "alg", "~"), t2, l2, &ml);
			if (mac && ml > 2) {
				size_t z = ml;
				if (head) { if (mac[0] == 0) z = 0; }
				else for (size_t q = 1; q + 1 < ml; q++) if (mac[q] == 0 && mac[0] != 0) { z = q; break; }
				if (z < ml) {
					for (size_t q = z + 1; q < ml; q++) mac[q] ^= 0xff;
					presig = mac; presig_len = ml; mac = NULL;
					free(hseg); free(text);
					hseg = h2; text = t2; tlen = l2; h2 = NULL; t2 = NULL;
				}
			}
			free(mac); free(h2); free(t2);
			if (!mac && !presig && i == 0 && !kd_sign(json_object_get(sd, "key"), jstr(sd, "alg", "~"), "x", 1, &ml)) break;
		}
	}

	/* signature */
	{
		const char *cls = jstr(sd, "cls", "empty");
		const char *salg = jstr(sd, "alg", "~");
		json_t *skd = json_object_get(sd, "key");
		unsigned char *sig = NULL; size_t sl = 0;
		const char *over = jstr(sd, "over", "self");
		char *otext = NULL; size_t olen = 0;
		int noncanon = 0, notb64 = 0;
		size_t textext = 0;

		if (!strcmp(over, "self")) { otext = strdup(text); olen = tlen; }
		else if (!strcmp(over, "hdronly")) { otext = strdup(hseg); olen = strlen(hseg); }
		else if (!strcmp(over, "payonly")) { otext = strdup(pseg); olen = strlen(pseg); }
		else if (!strcmp(over, "trailingdot")) { otext = malloc(tlen + 2); sprintf(otext, "%s.", text); olen = tlen + 1; }
		else if (!strcmp(over, "swapped")) { otext = malloc(tlen + 1); sprintf(otext, "%s.%s", pseg, hseg); olen = tlen; }
		else if (!strcmp(over, "other")) { otext = malloc(tlen + 8); sprintf(otext, "%s.%sAA", hseg, pseg); olen = strlen(otext); }
		else if (!strcmp(over, "decoded")) {
			/* over the decoded JSON texts joined by a dot */
			size_t a, b; unsigned char *x = b64u_dec(hseg, strlen(hseg), &a), *y = b64u_dec(pseg, strlen(pseg), &b);
			otext = malloc((x ? a : 0) + (y ? b : 0) + 2);
			olen = 0;
			if (x) { memcpy(otext, x, a); olen = a; }
			otext[olen++] = '.';
			if (y) { memcpy(otext + olen, y, b); olen += b; }
			free(x); free(y);
		} else die("sig over %s", over);

		if (!strcmp(cls, "empty") || !strcmp(cls, "padonly")) { sig = NULL; sl = 0; }
		else if (!strcmp(cls, "zerohead") || !strcmp(cls, "zerotail")) {
			if (presig) { sig = presig; sl = presig_len; presig = NULL; }
			else { sl = 32; sig = calloc(1, 33); memset(sig, 0x5a, 32); json_object_set_new(info, "signfail", json_integer(1)); }
		} else if (!strcmp(cls, "garbage")) {
			sl = (size_t)jint(sd, "len", 64); sig = malloc(sl + 1);
			for (size_t i = 0; i < sl; i++) sig[i] = (unsigned char)rnd();
		} else if (!strcmp(cls, "hmacempty")) {
			sig = sign_hmac(salg, (const unsigned char *)"", 0, otext, olen, &sl);
		} else if (!strcmp(cls, "hmacpubpem")) {
			const char *pem = pool_pubpem(jstr(skd, "base", "~"));
			sig = sign_hmac(salg, (const unsigned char *)pem, strlen(pem), otext, olen, &sl);
		} else if (!strcmp(cls, "hmaczero32")) {
			unsigned char z[64] = {0};
			sig = sign_hmac(salg, z, (size_t)jint(sd, "len", 32), otext, olen, &sl);
		} else {
			/* classes derived from a valid signature by skd under salg */
			sig = kd_sign(skd, salg, otext, olen, &sl);
			if (!sig) { sig = malloc(65); sl = 64; memset(sig, 0x5a, 64); json_object_set_new(info, "signfail", json_integer(1)); }
			if (!strcmp(cls, "valid")) {}
			else if (!strcmp(cls, "noncanon")) noncanon = 1;
			else if (!strcmp(cls, "flipbit")) {
				size_t pos = rndn((unsigned)sl); int bit = rndn(8);
				const char *where = jstr(sd, "where", "any");
				if (!strcmp(where, "first")) pos = 0; else if (!strcmp(where, "last")) pos = sl - 1;
				sig[pos] ^= (unsigned char)(1u << bit);
				json_object_set_new(info, "flip", json_pack("[ii]", (int)pos, bit));
			} else if (!strcmp(cls, "trunc")) {
				size_t k = (size_t)jint(sd, "n", 1); if (k > sl) k = sl; sl -= k;
			} else if (!strcmp(cls, "extend")) {
				size_t k = (size_t)jint(sd, "n", 1);
				sig = realloc(sig, sl + k + 1);
				for (size_t i = 0; i < k; i++) sig[sl + i] = jint(sd, "zero", 0) ? 0 : (unsigned char)rnd();
				sl += k;
			} else if (!strcmp(cls, "zeropad")) {
				/* ES*: zero-extend r and s to width w2 bytes each */
				size_t w = sl / 2, w2 = (size_t)jint(sd, "w", 48);
				if (w2 > w) {
					unsigned char *n2 = calloc(1, 2 * w2 + 1);
					memcpy(n2 + (w2 - w), sig, w); memcpy(n2 + w2 + (w2 - w), sig + w, w);
					free(sig); sig = n2; sl = 2 * w2;
				}
			} else if (!strcmp(cls, "der")) {
				/* ES*: DER encoded instead of r||s */
				size_t w = sl / 2; ECDSA_SIG *es = ECDSA_SIG_new(); unsigned char *p; int dl;
				ECDSA_SIG_set0(es, BN_bin2bn(sig, w, NULL), BN_bin2bn(sig + w, w, NULL));
				dl = i2d_ECDSA_SIG(es, NULL); free(sig); p = sig = malloc(dl + 1); i2d_ECDSA_SIG(es, &p); sl = dl;
				ECDSA_SIG_free(es);
			} else if (!strcmp(cls, "notb64")) notb64 = 1;
			else if (!strcmp(cls, "textext")) textext = (size_t)jint(sd, "tn", 256);
			else if (!strcmp(cls, "prefixdup")) {
				/* signature followed by itself */
				sig = realloc(sig, 2 * sl + 1); memcpy(sig + sl, sig, sl); sl *= 2;
			} else die("sig class %s", cls);
		}
		json_object_set_new(info, "siglen", json_integer((json_int_t)sl));
		if (sig && sl) {
			sigseg = b64u_enc(sig, sl);
			if (noncanon) {
				/* same bytes, different text: set unused low bits of the last char if any */
				size_t n = strlen(sigseg);
				int rem = sl % 3;
				if (rem) {
					int v = b64u_val(sigseg[n - 1]);
					v |= (rem == 1) ? 0x0f : 0x03;
					if (B64U[v] == sigseg[n - 1]) v ^= 1;
					sigseg[n - 1] = B64U[v];
					json_object_set_new(info, "noncanon", json_integer(1));
				} else {
					/* no spare bits: use standard-alphabet spelling of - and _ if present, else append padding */
					char *q = strpbrk(sigseg, "-_");
					if (q) { *q = (*q == '-') ? '+' : '/'; json_object_set_new(info, "noncanon", json_integer(2)); }
					else { sigseg = realloc(sigseg, n + 2); strcat(sigseg, "="); json_object_set_new(info, "noncanon", json_integer(3)); }
				}
			}
			if (notb64) { size_t n = strlen(sigseg); sigseg[rndn((unsigned)n)] = "!*#$%&()"[rndn(8)]; }
			if (textext) {	/* the genuine text, then more characters of the alphabet */
				size_t n = strlen(sigseg);
				sigseg = realloc(sigseg, n + textext + 1);
				for (size_t i = 0; i < textext; i++) sigseg[n + i] = B64U[(i * 7 + n) % 64];
				sigseg[n + textext] = 0;
			}
		} else sigseg = strdup("");
		if (!strcmp(cls, "padonly")) {	/* a third segment that consists of '=' only: not empty, not a signature */
			size_t n = (size_t)jint(sd, "tn", 2);
			free(sigseg);
			sigseg = malloc(n + 1); memset(sigseg, '=', n); sigseg[n] = 0;
		}
		free(sig); free(otext);
	}

	/* post-signing alteration of header/payload text */
	{
		const char *alter = jstr(td, "alter", "none");
		if (!strcmp(alter, "pay") || !strcmp(alter, "hdr")) {
			/* re-encode with one more member: different bytes, still well-formed */
			json_t *d = !strcmp(alter, "pay") ? pd : hd;
			json_t *m = json_object_get(d, "m") ? json_deep_copy(json_object_get(d, "m")) : json_array();
			char *ns;
			json_array_append_new(m, mem4("zz_altered", "str", "1", NULL));
			ns = segment_for("obj", m, !strcmp(alter, "hdr") ? jstr(hd, "alg", "~") : NULL, !strcmp(alter, "hdr"));
			if (!strcmp(alter, "pay")) { free(pseg); pseg = ns; } else { free(hseg); hseg = ns; }
			json_decref(m);
		} else if (!strcmp(alter, "paycase") ) {
			/* flip case of one base64 character in the payload segment */
			size_t n = strlen(pseg);
			for (size_t i = 0; i < n; i++) { size_t j = (i + rndn((unsigned)n)) % n; if ((pseg[j] | 32) >= 'a' && (pseg[j] | 32) <= 'z') { pseg[j] ^= 32; break; } }
		}
	}

	tok = malloc(strlen(hseg) + strlen(pseg) + 2 * strlen(sigseg) + 32);
	if (!strcmp(shape, "3seg")) sprintf(tok, "%s.%s.%s", hseg, pseg, sigseg);
	else if (!strcmp(shape, "0dot")) sprintf(tok, "%s%s%s", hseg, pseg, sigseg);
	else if (!strcmp(shape, "1dot")) sprintf(tok, "%s.%s%s", hseg, pseg, sigseg);
	else if (!strcmp(shape, "2seg")) sprintf(tok, "%s.%s", hseg, pseg);
	else if (!strcmp(shape, "4seg")) sprintf(tok, "%s.%s.%s.%s", hseg, pseg, sigseg, "AAAA");
	else if (!strcmp(shape, "4segempty")) sprintf(tok, "%s.%s.%s.", hseg, pseg, sigseg);
	else if (!strcmp(shape, "lead")) sprintf(tok, ".%s.%s.%s", hseg, pseg, sigseg);
	/* the genuine signature as the LAST segment, with something else in third place */
	else if (!strcmp(shape, "4segmid")) sprintf(tok, "%s.%s.AAAA.%s", hseg, pseg, sigseg);
	else if (!strcmp(shape, "4segmidempty")) sprintf(tok, "%s.%s..%s", hseg, pseg, sigseg);
	else if (!strcmp(shape, "5segmid")) sprintf(tok, "%s.%s.x.y.%s", hseg, pseg, sigseg);
	else if (!strcmp(shape, "dupsig")) sprintf(tok, "%s.%s.%s.%s", hseg, pseg, sigseg, sigseg);
	/* the genuine token with white space after (or before) it: a line read from a file, not a token */
	else if (!strcmp(shape, "tailnl")) sprintf(tok, "%s.%s.%s\n", hseg, pseg, sigseg);
	else if (!strcmp(shape, "tailcrlf")) sprintf(tok, "%s.%s.%s\r\n", hseg, pseg, sigseg);
	else if (!strcmp(shape, "tailcr")) sprintf(tok, "%s.%s.%s\r", hseg, pseg, sigseg);
	else if (!strcmp(shape, "tailnlx")) sprintf(tok, "%s.%s.%s\nAAAA", hseg, pseg, sigseg);
	else if (!strcmp(shape, "tailsp")) sprintf(tok, "%s.%s.%s ", hseg, pseg, sigseg);
	else if (!strcmp(shape, "tailtab")) sprintf(tok, "%s.%s.%s\t", hseg, pseg, sigseg);
	else if (!strcmp(shape, "leadnl")) sprintf(tok, "\n%s.%s.%s", hseg, pseg, sigseg);
	else if (!strcmp(shape, "leadsp")) sprintf(tok, " %s.%s.%s", hseg, pseg, sigseg);
	else die("shape %s", shape);
	free(hseg); free(pseg); free(sigseg); free(text);
	return tok;
}

static int alg_enum_ok(const char *s)
{
	static const char *names[] = {"HS256","HS384","HS512","RS256","RS384","RS512","ES256","ES384","ES512","PS256","PS384","PS512","ES256K","EdDSA"};
	for (int i = 0; i < 14; i++) if (!strcmp(names[i], s)) return 1;
	return 0;
}
/* ids of all live items (any ring) whose key validates sig over text under alg */
static json_t *valid_by(const char *alg, const char *text, size_t tlen, const unsigned char *sig, size_t sl);

/* Decode a produced token: segments, header/payload members, signature check */
static void project_token(json_t *ev, const char *tok, json_t *signkd, const char *expect_alg)
{
	const char *d1 = strchr(tok, '.'), *d2 = d1 ? strchr(d1 + 1, '.') : NULL, *d3 = d2 ? strchr(d2 + 1, '.') : NULL;
	size_t hl, pl, sl; unsigned char *h, *p, *s;
	(void)expect_alg;
	json_object_set_new(ev, "dots", json_integer(!d1 ? 0 : !d2 ? 1 : !d3 ? 2 : 3));
	if (!d2 || d3) return;
	json_object_set_new(ev, "pad", json_integer(strchr(tok, '=') ? 1 : 0));
	json_object_set_new(ev, "urlsafe", json_integer(strpbrk(tok, "+/") ? 0 : 1));
	h = b64u_dec(tok, (size_t)(d1 - tok), &hl);
	p = b64u_dec(d1 + 1, (size_t)(d2 - d1 - 1), &pl);
	s = b64u_dec(d2 + 1, strlen(d2 + 1), &sl);
	if (h && hl + pl > 20000) {	/* big trees (C05): digests only */
		json_object_set_new(ev, "thdr", marker_list("#big"));
		json_object_set_new(ev, "tclm", marker_list("#big"));
	} else {
		json_object_set_new(ev, "thdr", h ? project_objtext((char *)h, hl) : marker_list("#notb64"));
		json_object_set_new(ev, "tclm", p ? project_objtext((char *)p, pl) : marker_list("#notb64"));
	}
	if (h) add_split(ev, (char *)h, hl, 1, "threst", "thsmall"); else { json_object_set_new(ev, "threst", json_string("#notb64")); json_object_set_new(ev, "thsmall", json_array()); }
	if (p) add_split(ev, (char *)p, pl, 0, "tcrest", "tcsmall"); else { json_object_set_new(ev, "tcrest", json_string("#notb64")); json_object_set_new(ev, "tcsmall", json_array()); }
	/* canonical re-encoding check: segments are exactly the unpadded base64url of what they decode to */
	{
		int canon = 1;
		if (h) { char *r = b64u_enc(h, hl); if (strlen(r) != (size_t)(d1 - tok) || strncmp(r, tok, d1 - tok)) canon = 0; free(r); } else canon = 0;
		if (p) { char *r = b64u_enc(p, pl); if (strlen(r) != (size_t)(d2 - d1 - 1) || strncmp(r, d1 + 1, d2 - d1 - 1)) canon = 0; free(r); } else canon = 0;
		if (s) { char *r = b64u_enc(s, sl); if (strcmp(r, d2 + 1)) canon = 0; free(r); } else canon = 0;
		json_object_set_new(ev, "canon", json_integer(canon));
	}
	json_object_set_new(ev, "tsiglen", json_integer(s ? (json_int_t)sl : -1));
	json_object_set_new(ev, "rs_short", json_integer(s && (((sl == 64 || sl == 96) && (s[0] == 0 || s[sl / 2] == 0)) ||
			(sl == 132 && ((s[0] == 0 && s[1] == 0) || (s[66] == 0 && s[67] == 0)))) ? 1 : 0));
	/* header alg as written */
	{
		const char *alg = "~";
		json_error_t e; json_t *ho = h ? json_loadb((char *)h, hl, JSON_ALLOW_NUL, &e) : NULL;
		json_t *ja = ho ? json_object_get(ho, "alg") : NULL;
		(void)signkd;
		if (ja && json_is_string(ja)) alg = json_string_value(ja);
		json_object_set_new(ev, "talg", json_string(is_plain_ascii(alg) && strlen(alg) < 40 ? alg : "#odd"));
		if (s && sl && alg_enum_ok(alg))
			json_object_set_new(ev, "validby", valid_by(alg, tok, (size_t)(d2 - tok), s, sl));
		else
			json_object_set_new(ev, "validby", json_array());
		if (ho) json_decref(ho);
	}
	free(h); free(p); free(s);
}

static json_t *valid_by(const char *alg, const char *text, size_t tlen, const unsigned char *sig, size_t sl)
{
	json_t *a = json_array();
	for (int r = 0; r < MAXR; r++)
		for (int i = 0; i < rings[r].n; i++) {
			json_t *kd = rings[r].it[i].kd;
			if (!kd || !strcmp(jstr(kd, "base", "~"), "rawobj")) continue;
			if (jint(kd, "bad", 0)) continue;
			if (kd_verify(kd, alg, text, tlen, sig, sl))
				json_array_append_new(a, json_integer(rings[r].it[i].id));
		}
	return a;
}

/* ========================================================= config objects */
static struct cfgobj *cobj(json_t *op, int isb)
{
	long i = jint(op, isb ? "b" : "c", 0);
	if (i < 0 || i >= MAXO) die("object index");
	return isb ? &builders[i] : &checkers[i];
}
static void add_errmsg(json_t *ev, struct cfgobj *o, int isb)
{
	const char *m;
	if (!o->obj) return;
	json_object_set_new(ev, "err", json_integer(isb ? jwt_builder_error(o->obj) : jwt_checker_error(o->obj)));
	m = isb ? jwt_builder_error_msg(o->obj) : jwt_checker_error_msg(o->obj);
	json_object_set_new(ev, "msg", json_integer(m && m[0] ? 1 : 0));
}
static jwt_claims_t claim_enum(const char *s)
{
	if (!strcmp(s, "iss")) return JWT_CLAIM_ISS;
	if (!strcmp(s, "sub")) return JWT_CLAIM_SUB;
	if (!strcmp(s, "aud")) return JWT_CLAIM_AUD;
	if (!strcmp(s, "exp")) return JWT_CLAIM_EXP;
	if (!strcmp(s, "nbf")) return JWT_CLAIM_NBF;
	if (!strcmp(s, "iat")) return JWT_CLAIM_IAT;
	if (!strcmp(s, "jti")) return JWT_CLAIM_JTI;
	if (s[0] == '#') return (jwt_claims_t)strtol(s + 1, NULL, 0);
	die("claim %s", s);
	return 0;
}

/* the callback ctx is the cfgobj; adapt generic_cb's view */
static int obj_cb(jwt_t *jwt, jwt_config_t *config)
{
	struct cfgobj *o = config->ctx;
	struct cbctx cx;
	jwt_config_t c2 = *config;
	int r;
	int armed = alloc_armed;
	if (!o) {
		/* called although the application took the callback away (its context is gone): like an application's
		 * callback that does not need its context it carries on - and leaves a mark that the specification's token
		 * does not have */
		jwt_value_t jv;
		jwt_set_SET_BOOL(&jv, "callback-ran-after-removal", 1);
		jv.replace = 1;
		jwt_claim_set(jwt, &jv);
		jwt_header_set(jwt, &jv);
		return 0;
	}
	alloc_armed = 0;
	cx.prog = o->cb; cx.res = o->cbres ? o->cbres : (o->cbres = json_array()); cx.ran = 0;
	alloc_armed = armed;
	c2.ctx = &cx;
	r = generic_cb(jwt, &c2);
	config->key = c2.key; config->alg = c2.alg;
	o->cbran += cx.ran;
	return r;
}

/* apply one config op to an object (used for the live object and for twins) */
static void apply_cfg(struct cfgobj *o, int isb, json_t *op, json_t *ev)
{
	const char *name = jstr(op, "op", "?");
	int ret = 0;
	if (!strcmp(name + 1, "SetKey")) {
		ret = LIB(isb ? jwt_builder_setkey(o->obj, alg_enum(jstr(op, "alg", "none")), item_at(op))
			  : jwt_checker_setkey(o->obj, alg_enum(jstr(op, "alg", "none")), item_at(op)));
		if (ev) json_object_set_new(ev, "ret", json_integer(ret));
	} else if (!strcmp(name, "BIat")) {
		ret = jwt_builder_enable_iat(o->obj, (int)jint(op, "enable", 1));
		if (ev) json_object_set_new(ev, "ret", json_integer(ret));
	} else if (!strcmp(name, "BOffset")) {
		ret = jwt_builder_time_offset(o->obj, claim_enum(jstr(op, "claim", "exp")), (time_t)unwide(json_object_get(op, "secs")));
		if (ev) json_object_set_new(ev, "ret", json_integer(ret));
	} else if (!strcmp(name, "CLeeway")) {
		ret = jwt_checker_time_leeway(o->obj, claim_enum(jstr(op, "claim", "exp")), (time_t)unwide(json_object_get(op, "secs")));
		if (ev) json_object_set_new(ev, "ret", json_integer(ret));
	} else if (!strcmp(name, "CClaimSet")) {
		const char *v = jstr(op, "val", "~"); char *tmp = NULL;
		if (!strncmp(v, "#hex:", 5)) { size_t n; tmp = (char *)hexdec(v + 5, &n); v = tmp; }
		else if ((tmp = expand_long(v))) v = tmp;
		ret = LIB(jwt_checker_claim_set(o->obj, claim_enum(jstr(op, "claim", "iss")), is_none(v) ? NULL : v));
		free(tmp);
		if (ev) json_object_set_new(ev, "ret", json_integer(ret));
	} else if (!strcmp(name, "CClaimDel")) {
		ret = jwt_checker_claim_del(o->obj, claim_enum(jstr(op, "claim", "iss")));
		if (ev) json_object_set_new(ev, "ret", json_integer(ret));
	} else if (!strcmp(name + 1, "SetCb")) {
		json_t *prog = json_object_get(op, "prog");
		if (jint(op, "ctxonly", 0)) {
			/* setcb(NULL, ctx): the context only; the installed program (if any) stays */
			ret = LIB(isb ? jwt_builder_setcb(o->obj, NULL, o) : jwt_checker_setcb(o->obj, NULL, o));
			if (ev) {
				json_object_set_new(ev, "ret", json_integer(ret));
				json_object_set_new(ev, "ctxonly", json_integer(1));
				json_object_set_new(ev, "ctxis", json_integer((isb ? jwt_builder_getctx(o->obj) : jwt_checker_getctx(o->obj)) == (void *)o));
			}
			return;
		}
		if (o->cb) { json_decref(o->cb); o->cb = NULL; }
		if (prog && json_is_array(prog)) {
			o->cb = json_incref(prog);
			ret = isb ? jwt_builder_setcb(o->obj, obj_cb, o) : jwt_checker_setcb(o->obj, obj_cb, o);
		} else
			ret = isb ? jwt_builder_setcb(o->obj, NULL, NULL) : jwt_checker_setcb(o->obj, NULL, NULL);
		if (ev) json_object_set_new(ev, "ret", json_integer(ret));
	} else if (!strcmp(name, "BMap")) {
		json_t *tmp = ev ? ev : json_object();
		map_op(tmp, o->obj, 0, jstr(op, "k", "set"), jstr(op, "which", "clm"), json_object_get(op, "v"), ev ? (int)jint(op, "map", 1) : 0);
		if (!ev) json_decref(tmp);
	} else die("apply_cfg %s", name);
}
static void twin_make(struct cfgobj *t, struct cfgobj *o, int isb, int withcb)
{
	size_t i; json_t *op;
	memset(t, 0, sizeof *t);
	t->istwin = 1;
	t->obj = isb ? (void *)jwt_builder_new() : (void *)jwt_checker_new();
	json_array_foreach(o->cfg, i, op) {
		const char *n = jstr(op, "op", "?");
		if (!withcb && !strcmp(n + 1, "SetCb")) continue;
		apply_cfg(t, isb, op, NULL);
	}
}
static void twin_free(struct cfgobj *t, int isb)
{
	if (isb) jwt_builder_free(t->obj); else jwt_checker_free(t->obj);
	if (t->cb) json_decref(t->cb);
	if (t->cbres) json_decref(t->cbres);
}
static json_t *verify_res(struct cfgobj *o, const char *tok)
{
	json_t *r = json_object();
	int ret;
	if (o->cbres) { json_decref(o->cbres); o->cbres = NULL; }
	o->cbran = 0;
	{
		/* the token in a heap block of exactly its size: a read past its terminator is a sanitizer report */
		char *exact = tok ? strdup(tok) : NULL;
		ret = LIB(jwt_checker_verify(o->obj, exact));
		free(exact);
	}
	json_object_set_new(r, "ret", json_integer(ret));
	add_errmsg(r, o, 0);
	json_object_set_new(r, "cbran", json_integer(o->cbran));
	if (o->cbres) json_object_set(r, "cbres", o->cbres);
	return r;
}
static json_t *generate_res(struct cfgobj *o, char **tokout)
{
	json_t *r = json_object();
	char *tok;
	if (o->cbres) { json_decref(o->cbres); o->cbres = NULL; }
	o->cbran = 0;
	tok = LIB(jwt_builder_generate(o->obj));
	json_object_set_new(r, "ret", json_string(tok ? "tok" : "null"));
	add_errmsg(r, o, 1);
	json_object_set_new(r, "cbran", json_integer(o->cbran));
	if (o->cbres) json_object_set(r, "cbres", o->cbres);
	if (tok) {
		project_token(r, tok, NULL, NULL);
		if (strlen(tok) < 400 && is_plain_ascii(tok)) json_object_set_new(r, "text", json_string(tok));
		{ unsigned char d[32]; char *h; SHA256((unsigned char *)tok, strlen(tok), d); h = hexenc(d, 8); json_object_set_new(r, "tokdig", json_string(h)); free(h); }
	}
	if (tokout) *tokout = tok; else if (tok) lib_free(tok);
	return r;
}

/* ================================================================ codec */
static json_t *bytes_list(const unsigned char *b, size_t n)
{
	json_t *a = json_array();
	for (size_t i = 0; i < n; i++) json_array_append_new(a, json_integer(b[i]));
	return a;
}
static unsigned char *list_bytes(json_t *a, size_t *n)
{
	size_t l = json_array_size(a);
	unsigned char *b = malloc(l + 1);
	for (size_t i = 0; i < l; i++) b[i] = (unsigned char)json_integer_value(json_array_get(a, i));
	b[l] = 0; *n = l;
	return b;
}
/* {"op":"Codec","dir":"enc","bytes":[...]} / {"dir":"dec","chars":[...]} (no NUL in chars) */
static void op_codec(json_t *op, json_t *ev)
{
	const char *dir = jstr(op, "dir", "enc");
	size_t n;
	if (!strcmp(dir, "enc")) {
		unsigned char *in = list_bytes(json_object_get(op, "bytes"), &n);
		/* exact-size heap copy so that ASan sees any over-read */
		char *exact = malloc(n ? n : 1), *out = NULL;
		int r;
		memcpy(exact, in, n);
		r = jwt_base64uri_encode(&out, exact, (int)n);
		json_object_set_new(ev, "ret", json_integer(r));
		json_object_set_new(ev, "isnull", json_integer(out ? 0 : 1));
		json_object_set_new(ev, "chars", out ? bytes_list((unsigned char *)out, strlen(out)) : json_array());
		if (out) lib_free(out);
		free(exact); free(in);
	} else {
		unsigned char *in = list_bytes(json_object_get(op, "chars"), &n);
		char *exact = malloc(n + 1);
		int len = -7;
		unsigned char *out;
		memcpy(exact, in, n); exact[n] = 0;
		out = jwt_base64uri_decode(exact, &len);
		json_object_set_new(ev, "ret", json_integer(len));
		json_object_set_new(ev, "isnull", json_integer(out ? 0 : 1));
		json_object_set_new(ev, "bytes", out && len > 0 ? bytes_list(out, (size_t)len) : json_array());
		if (out) lib_free(out);
		free(exact); free(in);
	}
}

/* Batched codec calls over an enumerated domain (C11):
 *  {"op":"CodecBatch","dir":"enc","len":3,"prefix":[17]}            all byte strings of that length with that prefix
 *  {"op":"CodecBatch","dir":"dec","len":4,"alpha":[..],"prefix":[]}  all strings of that length over alpha
 * The inputs are not logged (the trace spec regenerates them from the
 * descriptor and checks the count); outputs are logged in order. */
static void op_codec_batch(json_t *op, json_t *ev)
{
	const char *dir = jstr(op, "dir", "enc");
	int isenc = !strcmp(dir, "enc");
	size_t len = (size_t)jint(op, "len", 3), npre, nalpha = 256, rem, total = 1;
	size_t nsuf = 0;
	unsigned char *suf = json_object_get(op, "suffix") ? list_bytes(json_object_get(op, "suffix"), &nsuf) : NULL;
	unsigned char *pre = list_bytes(json_object_get(op, "prefix"), &npre), *alpha = NULL;
	json_t *outs = json_array(), *rets = json_array(), *nulls = json_array();
	if (!isenc) alpha = list_bytes(json_object_get(op, "alpha"), &nalpha);
	if (npre + nsuf > len) die("prefix too long");
	rem = len - npre - nsuf;
	for (size_t k = 0; k < rem; k++) total *= nalpha;
	if (total > 300000) die("batch too large");
	for (size_t i = 0; i < total; i++) {
		unsigned char *in = malloc(len + 1);	/* exact size: ASan sees over-reads */
		size_t x = i;
		memcpy(in, pre, npre);
		for (size_t k = 0; k < rem; k++) {
			size_t d = x % nalpha; x /= nalpha;
			in[len - nsuf - 1 - k] = isenc ? (unsigned char)d : alpha[d];
		}
		if (nsuf) memcpy(in + len - nsuf, suf, nsuf);
		in[len] = 0;
		if (isenc) {
			char *out = NULL;
			char *exact = malloc(len ? len : 1);
			int r;
			memcpy(exact, in, len);
			r = jwt_base64uri_encode(&out, exact, (int)len);
			json_array_append_new(rets, json_integer(r));
			json_array_append_new(nulls, json_integer(out ? 0 : 1));
			json_array_append_new(outs, out ? bytes_list((unsigned char *)out, strlen(out)) : json_array());
			if (out) lib_free(out);
			free(exact);
		} else {
			int l = -7;
			unsigned char *out = jwt_base64uri_decode((char *)in, &l);
			json_array_append_new(rets, json_integer(l));
			json_array_append_new(nulls, json_integer(out ? 0 : 1));
			json_array_append_new(outs, out && l > 0 ? bytes_list(out, (size_t)l) : json_array());
			if (out) lib_free(out);
		}
		free(in);
	}
	json_object_set_new(ev, "outs", outs);
	json_object_set_new(ev, "rets", rets);
	json_object_set_new(ev, "nulls", nulls);
	free(pre); free(alpha); free(suf);
}

/* ============================================================ threads (C18) */
/* {"op":"Threads","ring":0,"iters":N,"specs":[{"alg":"HS256","key":0,"vkey":0,"det":1},...]}
 * Every spec is first executed sequentially (own builder and checker, shared
 * ring), then all specs run concurrently, one thread each, with a random start
 * skew.  One event per spec carries both result lists. */
struct tspec { const char *alg; const jwk_item_t *key, *vkey; int det; long iters; unsigned skew; json_t *res;
	       jwk_set_t *set; const char *kid, *vkid; int walk; };
struct tcb { jwk_set_t *set; const char *kid; jwt_alg_t alg; int walk; };
/* the usual lookup-by-kid callback: the key comes from the shared keyring at every call */
static int thread_kid_cb(jwt_t *jwt, jwt_config_t *config)
{
	struct tcb *c = config->ctx;
	(void)jwt;
	if (c->walk) {
		/* the other usual pattern: walk the shared keyring by index and pick the key by its attributes */
		size_t n = jwks_item_count(c->set);
		config->key = NULL;
		for (size_t i = 0; i < n; i++) {
			const jwk_item_t *it = jwks_item_get(c->set, i);
			const char *k = it ? jwks_item_kid(it) : NULL;
			if (k && !strcmp(k, c->kid)) { config->key = it; break; }
		}
	} else
		config->key = jwks_find_bykid(c->set, c->kid);
	config->alg = c->alg;
	return config->key ? 0 : 1;
}
static void *thread_body(void *arg)
{
	struct tspec *t = arg;
	jwt_builder_t *b = jwt_builder_new();
	jwt_checker_t *c = jwt_checker_new();
	json_t *res = json_array();
	jwt_value_t jv;
	struct tcb bcb = { t->set, t->kid, alg_enum(t->alg), t->walk }, ccb = { t->set, t->vkid, alg_enum(t->alg), t->walk };
	if (t->skew) usleep(t->skew);
	if (t->kid) {
		jwt_builder_setcb(b, thread_kid_cb, &bcb);
		jwt_checker_setcb(c, thread_kid_cb, &ccb);
	} else {
		jwt_builder_setkey(b, alg_enum(t->alg), t->key);
		jwt_checker_setkey(c, alg_enum(t->alg), t->vkey);
	}
	for (long j = 0; j < t->iters; j++) {
		char *tok, dig[20] = "-";
		int r1 = -1, r2 = -1, g;
		jwt_set_SET_INT(&jv, "n", j);
		jv.replace = 1;
		jwt_builder_claim_set(b, &jv);
		tok = jwt_builder_generate(b);
		g = tok != NULL;
		if (tok) {
			size_t n = strlen(tok);
			if (t->det) { unsigned char d[32]; SHA256((unsigned char *)tok, n, d); for (int x = 0; x < 6; x++) sprintf(dig + 2 * x, "%02x", d[x]); }
			r1 = jwt_checker_verify(c, tok);
			tok[n - 2] = tok[n - 2] == 'A' ? 'B' : 'A';	/* damage the signature */
			r2 = jwt_checker_verify(c, tok);
			free(tok);
		}
		json_array_append_new(res, json_pack("[iiis]", g, r1, r2 ? 1 : 0, dig));
	}
	jwt_builder_free(b);
	jwt_checker_free(c);
	t->res = res;
	return NULL;
}
static void op_threads(json_t *op, json_t *unused)
{
	struct ring *r = ring_of(op);
	json_t *specs = json_object_get(op, "specs"), *sp;
	size_t n = json_array_size(specs), i;
	struct tspec *ts = calloc(n, sizeof *ts);
	json_t **seq = calloc(n, sizeof *seq);
	pthread_t *th = calloc(n, sizeof *th);
	uint64_t rs = case_rng;
	(void)unused;
	json_array_foreach(specs, i, sp) {
		ts[i].alg = jstr(sp, "alg", "HS256");
		ts[i].key = jwks_item_get(r->set, (size_t)jint(sp, "key", 0));
		ts[i].vkey = jwks_item_get(r->set, (size_t)jint(sp, "vkey", 0));
		ts[i].det = (int)jint(sp, "det", 0);
		ts[i].set = r->set;
		ts[i].walk = jint(op, "bykid", 0) == 2;
		if (jint(op, "bykid", 0)) {
			ts[i].kid = jwks_item_kid(ts[i].key);
			ts[i].vkid = jwks_item_kid(ts[i].vkey);
			if (!ts[i].kid || !ts[i].vkid) die("Threads bykid: key without kid");
		}
		ts[i].iters = jint(op, "iters", 10);
		ts[i].skew = 0;
	}
	if (jint(op, "parfirst", 0)) {
		/* the threads come FIRST (the process's very first signatures and verifications are concurrent: one-time
		 * initialisations inside the library race here or nowhere), the sequential reference afterwards */
		json_t **par = calloc(n, sizeof *par);
		for (i = 0; i < n; i++) ts[i].skew = 0;
		for (i = 0; i < n; i++) if (pthread_create(&th[i], NULL, thread_body, &ts[i])) die("pthread_create");
		for (i = 0; i < n; i++) pthread_join(th[i], NULL);
		for (i = 0; i < n; i++) { par[i] = ts[i].res; ts[i].res = NULL; }
		for (i = 0; i < n; i++) { thread_body(&ts[i]); seq[i] = ts[i].res; ts[i].res = par[i]; }
		free(par);
	} else {
	for (i = 0; i < n; i++) { thread_body(&ts[i]); seq[i] = ts[i].res; ts[i].res = NULL; }
	for (i = 0; i < n; i++) ts[i].skew = jint(op, "skew", 1) ? (unsigned)(splitmix(&rs) % 3000) : 0;
	for (i = 0; i < n; i++) if (pthread_create(&th[i], NULL, thread_body, &ts[i])) die("pthread_create");
	for (i = 0; i < n; i++) pthread_join(th[i], NULL);
	}
	for (i = 0; i < n; i++) {
		json_t *ev = json_pack("{s:s,s:I,s:s,s:i,s:o,s:o}", "e", "Thread", "t", (json_int_t)i, "alg", ts[i].alg, "det", ts[i].det,
				       "seq", seq[i], "par", ts[i].res ? ts[i].res : json_array());
		emit(ev); json_decref(ev);
	}
	free(ts); free(seq); free(th);
}

/* ================================================================ ops */
static void free_all_objects(void)
{
	for (int i = 0; i < MAXO; i++) {
		if (builders[i].obj) jwt_builder_free(builders[i].obj);
		if (checkers[i].obj) jwt_checker_free(checkers[i].obj);
		if (builders[i].cfg) json_decref(builders[i].cfg);
		if (checkers[i].cfg) json_decref(checkers[i].cfg);
		if (builders[i].cb) json_decref(builders[i].cb);
		if (checkers[i].cb) json_decref(checkers[i].cb);
		if (builders[i].cbres) json_decref(builders[i].cbres);
		if (checkers[i].cbres) json_decref(checkers[i].cbres);
		memset(&builders[i], 0, sizeof builders[i]);
		memset(&checkers[i], 0, sizeof checkers[i]);
	}
	for (int r = 0; r < MAXR; r++) {
		if (rings[r].set) jwks_free(rings[r].set);
		for (int i = 0; i < rings[r].n; i++) if (rings[r].it[i].kd) json_decref(rings[r].it[i].kd);
		memset(&rings[r], 0, sizeof rings[r]);
	}
	for (int s = 0; s < MAXSLOT; s++) {
		if (slots[s]) lib_free(slots[s]);
		slots[s] = NULL;
		if (slotkd[s]) json_decref(slotkd[s]);
		slotkd[s] = NULL;
	}
	next_item_id = 0;
}

static char *build_doc(json_t *op, size_t *len)
{
	const char *doc = jstr(op, "doc", "keys");
	json_t *keys = json_object_get(op, "keys");
	char *s;
	/* literal documents: the class named in "doc" is what the script says the text is */
	if (json_object_get(op, "hex")) { s = (char *)hexdec(jstr(op, "hex", ""), len); return s; }
	if (json_object_get(op, "text")) { s = strdup(jstr(op, "text", "")); *len = strlen(s); return s; }
	if (!strcmp(doc, "single")) {
		json_t *j = export_jwk(json_array_get(keys, 0));
		s = json_dumps(j, JSON_COMPACT | JSON_ENCODE_ANY); json_decref(j);
	} else {
		json_t *arr = json_array(), *top = NULL; size_t i; json_t *kd;
		json_array_foreach(keys, i, kd) json_array_append_new(arr, export_jwk(kd));
		if (!strcmp(doc, "keys")) top = json_pack("{s:o}", "keys", arr);
		else if (!strcmp(doc, "keysextra")) top = json_pack("{s:s,s:o,s:i}", "kty", "oct", "keys", arr, "zz", 1);
		else if (!strcmp(doc, "toparray")) top = arr;
		else die("doc class %s", doc);
		s = json_dumps(top, JSON_COMPACT | JSON_ENCODE_ANY); json_decref(top);
	}
	*len = strlen(s);
	return s;
}

static void op_load(json_t *op, json_t *ev)
{
	struct ring *r = ring_of(op);
	const char *via = jstr(op, "via", "load");
	size_t len = 0;
	char *doc = build_doc(op, &len);
	jwk_set_t *ret = NULL, *before = r->set;
	json_t *newitems = json_array(), *ids;
	char path[600];
	int iscreate = !strncmp(via, "create", 6);

	if (iscreate && r->set) die("create on live ring");
	if (strlen(doc) != len && (!strcmp(via, "load") || !strcmp(via, "create")))
		json_object_set_new(ev, "nulbytes", json_integer(1));
	if (!strcmp(via, "load")) ret = LIB(jwks_load(r->set, doc));
	else if (!strcmp(via, "load_strn")) ret = LIB(jwks_load_strn(r->set, doc, len));
	else if (!strcmp(via, "create")) ret = LIB(jwks_create(doc));
	else if (!strcmp(via, "create_strn")) ret = LIB(jwks_create_strn(doc, len));
	else {
		FILE *f;
		snprintf(path, sizeof path, "%s/jwtdrv.%d.json", tmp_dir, (int)getpid());
		f = fopen(path, "wb");
		if (!f) die("tmp file %s", path);
		fwrite(doc, 1, len, f); fclose(f);
		if (!strcmp(via, "fromfile")) ret = LIB(jwks_load_fromfile(r->set, path));
		else if (!strcmp(via, "create_fromfile")) ret = LIB(jwks_create_fromfile(path));
		else if (!strcmp(via, "fromfp") || !strcmp(via, "create_fromfp")) {
			f = fopen(path, "rb");
			ret = LIB(!strcmp(via, "fromfp") ? jwks_load_fromfp(r->set, f) : jwks_create_fromfp(f));
			fclose(f);
		} else die("via %s", via);
		unlink(path);
	}
	json_object_set_new(ev, "retnull", json_integer(ret ? 0 : 1));
	json_object_set_new(ev, "same", json_integer(before ? (ret == before) : -1));
	if (ret) r->set = ret;
	if (r->set) {
		const char *m = jwks_error_msg(r->set);
		json_object_set_new(ev, "seterr", json_integer(jwks_error(r->set)));
		json_object_set_new(ev, "setmsg", json_integer(m && m[0] ? 1 : 0));
		json_object_set_new(ev, "errany", json_integer(jwks_error_any(r->set)));
		json_object_set_new(ev, "count", json_integer((json_int_t)jwks_item_count(r->set)));
	}
	ids = ring_sync(r, json_object_get(op, "keys"), newitems, 1);
	json_object_set_new(ev, "ids", ids);
	json_object_set_new(ev, "new", newitems);
	if (jint(op, "logdoc", 0) && len < 2000 && is_plain_ascii(doc)) json_object_set_new(ev, "doctext", json_string(doc));
	free(doc);
}

static void run_op(json_t *op)
{
	const char *name = jstr(op, "op", "?");
	json_t *ev = json_deep_copy(op);
	json_object_del(ev, "op");
	json_object_set_new(ev, "e", json_string(name));

	if (!strcmp(name, "Clock")) {
		drv_now = (time_t)unwide(json_object_get(op, "now"));
		drv_tick = (int)jint(op, "tick", 0);
	} else if (!strcmp(name, "Ops")) {
		const char *n = jstr(op, "name", "~");
		int ret = jwt_set_crypto_ops(n);
		json_object_set_new(ev, "ret", json_integer(ret));
		json_object_set_new(ev, "cur", json_string(jwt_get_crypto_ops()));
		json_object_set_new(ev, "curt", json_integer(jwt_get_crypto_ops_t()));
		json_object_set_new(ev, "jwk", json_integer(jwt_crypto_ops_supports_jwk()));
	} else if (!strcmp(name, "OpsThread")) {
		/* the provider is the process's: what another thread sees and selects is what this one sees */
		struct opsthr a = { jstr(op, "name", "~"), -1, "" };
		pthread_t th;
		if (pthread_create(&th, NULL, opsthr_main, &a)) die("pthread_create");
		pthread_join(th, NULL);
		json_object_set_new(ev, "ret", json_integer(a.ret));
		json_object_set_new(ev, "seen", json_string(a.seen));
		json_object_set_new(ev, "cur", json_string(jwt_get_crypto_ops()));
	} else if (!strcmp(name, "OpsT")) {
		int ret = jwt_set_crypto_ops_t((jwt_crypto_provider_t)jint(op, "id", 0));
		json_object_set_new(ev, "ret", json_integer(ret));
		json_object_set_new(ev, "cur", json_string(jwt_get_crypto_ops()));
		json_object_set_new(ev, "curt", json_integer(jwt_get_crypto_ops_t()));
		json_object_set_new(ev, "jwk", json_integer(jwt_crypto_ops_supports_jwk()));
	} else if (!strcmp(name, "Load")) {
		op_load(op, ev);
	} else if (!strcmp(name, "ItemGet")) {
		struct ring *r = ring_of(op);
		const jwk_item_t *it = jwks_item_get(r->set, ((size_t)jint(op, "hi", 0) << 32) | (size_t)jint(op, "index", 0));
		int id = -1;
		for (int i = 0; i < r->n; i++) if (r->it[i].ptr == it) id = r->it[i].id;
		json_object_set_new(ev, "id", json_integer(it ? (id >= 0 ? id : -2) : -1));
	} else if (!strcmp(name, "Count")) {
		json_object_set_new(ev, "ret", json_integer((json_int_t)jwks_item_count(ring_of(op)->set)));
	} else if (!strcmp(name, "Find")) {
		struct ring *r = ring_of(op);
		const jwk_item_t *it = jwks_find_bykid(r->set, jstr(op, "kid", ""));
		int id = -1;
		for (int i = 0; i < r->n; i++) if (r->it[i].ptr == it) id = r->it[i].id;
		json_object_set_new(ev, "id", json_integer(it ? (id >= 0 ? id : -2) : -1));
	} else if (!strcmp(name, "ItemFree") || !strcmp(name, "FreeBad") || !strcmp(name, "FreeAll")) {
		struct ring *r = ring_of(op);
		int ret;
		json_object_set_new(ev, "flags_before", ring_flags(r));
		if (!strcmp(name, "ItemFree")) ret = LIB(jwks_item_free(r->set, ((size_t)jint(op, "hi", 0) << 32) | (size_t)jint(op, "index", 0)));
		else if (!strcmp(name, "FreeBad")) ret = LIB(jwks_item_free_bad(r->set));
		else ret = LIB(jwks_item_free_all(r->set));
		json_object_set_new(ev, "ret", json_integer(ret));
		json_object_set_new(ev, "ids", ring_sync(r, NULL, NULL, 0));
		json_object_set_new(ev, "count", json_integer((json_int_t)jwks_item_count(r->set)));
	} else if (!strcmp(name, "ErrAny")) {
		struct ring *r = ring_of(op);
		const char *m = jwks_error_msg(r->set);
		json_object_set_new(ev, "ret", json_integer(jwks_error_any(r->set)));
		json_object_set_new(ev, "seterr", json_integer(jwks_error(r->set)));
		json_object_set_new(ev, "setmsg", json_integer(m && m[0] ? 1 : 0));
		json_object_set_new(ev, "flags", ring_flags(r));
	} else if (!strcmp(name, "RingErrClear")) {
		struct ring *r = ring_of(op);
		const char *m;
		jwks_error_clear(r->set);
		m = jwks_error_msg(r->set);
		json_object_set_new(ev, "seterr", json_integer(jwks_error(r->set)));
		json_object_set_new(ev, "setmsg", json_integer(m && m[0] ? 1 : 0));
	} else if (!strcmp(name, "RingFree")) {
		struct ring *r = ring_of(op);
		jwks_free(r->set);
		for (int i = 0; i < r->n; i++) if (r->it[i].kd) json_decref(r->it[i].kd);
		memset(r, 0, sizeof *r);
	} else if (!strcmp(name, "BNew") || !strcmp(name, "CNew")) {
		int isb = name[0] == 'B';
		struct cfgobj *o = cobj(op, isb);
		if (o->obj) die("object exists");
		o->obj = LIB(isb ? (void *)jwt_builder_new() : (void *)jwt_checker_new());
		o->cfg = json_array();
		json_object_set_new(ev, "ok", json_integer(o->obj ? 1 : 0));
		add_errmsg(ev, o, isb);
		if (isb && o->obj) { json_object_set_new(ev, "hdr", whole_map(o->obj, g_bh)); json_object_set_new(ev, "clm", whole_map(o->obj, g_bc)); }
	} else if (!strcmp(name, "BFree") || !strcmp(name, "CFree")) {
		int isb = name[0] == 'B';
		struct cfgobj *o = cobj(op, isb);
		if (isb) jwt_builder_free(o->obj); else jwt_checker_free(o->obj);
		if (o->cfg) json_decref(o->cfg);
		if (o->cb) json_decref(o->cb);
		if (o->cbres) json_decref(o->cbres);
		memset(o, 0, sizeof *o);
	} else if (!strcmp(name, "BSetKey") || !strcmp(name, "CSetKey") || !strcmp(name, "BIat") ||
		   !strcmp(name, "BOffset") || !strcmp(name, "CLeeway") || !strcmp(name, "CClaimSet") ||
		   !strcmp(name, "CClaimDel") || !strcmp(name, "BSetCb") || !strcmp(name, "CSetCb") || !strcmp(name, "BMap")) {
		int isb = name[0] == 'B';
		struct cfgobj *o = cobj(op, isb);
		if (!o->obj) die("%s on missing object", name);
		if (strcmp(name, "BMap") || strcmp(jstr(op, "k", "set"), "get")) json_array_append(o->cfg, op);
		apply_cfg(o, isb, op, ev);
		if (!strcmp(name, "BMap")) {
			json_t *vv = json_object_get(ev, "v"), *tv = vv ? json_object_get(vv, "val") : NULL;
			if (tv && json_is_string(tv) && json_string_length(tv) > 2000) json_object_set_new(vv, "val", json_string("#big"));
		}
		add_errmsg(ev, o, isb);
		if (!strcmp(name + 1, "SetKey")) {
			const jwk_item_t *it = item_at(op);
			int id = -1;
			for (int r = 0; r < MAXR; r++) for (int i = 0; i < rings[r].n; i++) if (rings[r].it[i].ptr == it) id = rings[r].it[i].id;
			json_object_set_new(ev, "keyid", json_integer(id));
		}
	} else if (!strcmp(name, "CClaimGet")) {
		struct cfgobj *o = cobj(op, 0);
		const char *v = jwt_checker_claim_get(o->obj, claim_enum(jstr(op, "claim", "iss")));
		if (v && !is_plain_ascii(v)) { char *h = hexenc((const unsigned char *)v, strlen(v)); char *t = malloc(strlen(h) + 6); sprintf(t, "#hex:%s", h); json_object_set_new(ev, "val", json_string(t)); free(h); free(t); }
		else json_object_set_new(ev, "val", jsn(v));
	} else if (!strcmp(name, "BErrClear") || !strcmp(name, "CErrClear")) {
		int isb = name[0] == 'B';
		struct cfgobj *o = cobj(op, isb);
		if (isb) jwt_builder_error_clear(o->obj); else jwt_checker_error_clear(o->obj);
		add_errmsg(ev, o, isb);
	} else if (!strcmp(name, "BErr") || !strcmp(name, "CErr")) {
		add_errmsg(ev, cobj(op, name[0] == 'B'), name[0] == 'B');
	} else if (!strcmp(name, "Verify")) {
		struct cfgobj *o = cobj(op, 0);
		json_t *info = json_pack("{s:i}", "v", 1);
		char *tok = forge_token(json_object_get(op, "tok"), info);
		json_t *res;
		size_t i; const char *k; json_t *v;
		(void)i;
		if (!o->obj) die("Verify on missing checker");
		res = verify_res(o, tok);
		json_object_foreach(res, k, v) json_object_set(ev, k, v);
		json_decref(res);
		json_object_set_new(ev, "info", info);
		if (tok) json_object_set_new(ev, "toklen", json_integer((json_int_t)strlen(tok)));
		{
			/* the twins are the reference: no allocation faults in them */
			int fm = fault_mode;
			fault_mode = 0;
			if (jint(op, "twin", 0)) {
				struct cfgobj t; twin_make(&t, o, 0, 1);
				json_object_set_new(ev, "fresh", verify_res(&t, tok));
				twin_free(&t, 0);
			}
			if (jint(op, "nocb", 0)) {
				struct cfgobj t; twin_make(&t, o, 0, 0);
				json_object_set_new(ev, "nocbres", verify_res(&t, tok));
				twin_free(&t, 0);
			}
			fault_mode = fm;
		}
		if (jint(op, "logtok", 0) && tok && strlen(tok) < 3000 && is_plain_ascii(tok)) json_object_set_new(ev, "text", json_string(tok));
		free(tok);
	} else if (!strcmp(name, "Generate")) {
		struct cfgobj *o = cobj(op, 1);
		char *tok = NULL;
		json_t *res;
		const char *k; json_t *v;
		long slot = jint(op, "slot", -1);
		if (!o->obj) die("Generate on missing builder");
		if (!jint(op, "lite", 0)) {
			json_object_set_new(ev, "hdr_before", whole_map(o->obj, g_bh));
			json_object_set_new(ev, "clm_before", whole_map(o->obj, g_bc));
		}
		if (json_object_get(op, "hjson")) {
			/* what the builder was given (the script repeats the texts): digests by the same canonicaliser */
			const char *hj = jstr(op, "hjson", "{}"), *cj = jstr(op, "cjson", "{}");
			char *th = NULL, *tc = NULL; size_t nh = strlen(hj), nc = strlen(cj);
			if (!strncmp(hj, "#hex:", 5)) { th = (char *)hexdec(hj + 5, &nh); hj = th; }
			if (!strncmp(cj, "#hex:", 5)) { tc = (char *)hexdec(cj + 5, &nc); cj = tc; }
			add_split(ev, hj, nh, 1, "given_hrest", "given_hsmall");
			add_split(ev, cj, nc, 0, "given_crest", "given_csmall");
			free(th); free(tc);
			json_object_del(ev, "hjson"); json_object_del(ev, "cjson");
		}
		res = generate_res(o, &tok);
		json_object_foreach(res, k, v) json_object_set(ev, k, v);
		json_decref(res);
		if (!jint(op, "lite", 0)) {
			json_object_set_new(ev, "hdr_after", whole_map(o->obj, g_bh));
			json_object_set_new(ev, "clm_after", whole_map(o->obj, g_bc));
		} else {
			json_object_set_new(ev, "hdr_after", marker_list("#lite"));
			json_object_set_new(ev, "clm_after", marker_list("#lite"));
		}
		if (jint(op, "twin", 0)) {
			struct cfgobj t; twin_make(&t, o, 1, 1);
			json_object_set_new(ev, "fresh", generate_res(&t, NULL));
			twin_free(&t, 1);
		}
		if (slot >= 0 && slot < MAXSLOT) {
			if (slots[slot]) lib_free(slots[slot]);
			slots[slot] = tok;
		} else if (tok) lib_free(tok);
	} else if (!strcmp(name, "Forge")) {
		/* concretise a token descriptor once and keep it for several verifies */
		long slot = jint(op, "slot", 0);
		json_t *info = json_pack("{s:i}", "v", 1);
		char *tok = forge_token(json_object_get(op, "tok"), info);
		if (slot < 0 || slot >= MAXSLOT) die("slot");
		if (slots[slot]) lib_free(slots[slot]);
		if (tok) {	/* slots are released with the library's allocator */
			jwt_malloc_t m; jwt_free_t f; char *c;
			jwt_get_alloc(&m, &f);
			c = m ? m(strlen(tok) + 1) : malloc(strlen(tok) + 1);
			strcpy(c, tok); free(tok); tok = c;
		}
		slots[slot] = tok;
		json_object_set_new(ev, "info", info);
	} else if (!strcmp(name, "KeyGen")) {
		/* fresh key material under a pool name (thorough tiers) */
		pool_add(jstr(op, "name", "fresh"), fresh_key(jstr(op, "kind", "P-256"), (int)jint(op, "bits", 2048)));
	} else if (!strcmp(name, "KeyLoad")) {
		/* register key material given as PEM text under a pool name */
		const char *pem = jstr(op, "pem", "");
		BIO *b = BIO_new_mem_buf(pem, -1);
		EVP_PKEY *k = PEM_read_bio_PrivateKey(b, NULL, NULL, NULL);
		BIO_free(b);
		if (!k) die("KeyLoad: bad PEM");
		pool_add(jstr(op, "name", "loaded"), k);
		json_object_del(ev, "pem");
	} else if (!strcmp(name, "OpsEnv")) {
		const char *v = getenv("JWT_CRYPTO");
		json_object_set_new(ev, "env", json_string(v && is_plain_ascii(v) ? v : "~"));
		json_object_set_new(ev, "cur", json_string(startup_ops));
	} else if (!strcmp(name, "Codec")) {
		op_codec(op, ev);
	} else if (!strcmp(name, "Threads")) {
		op_threads(op, ev);
	} else if (!strcmp(name, "CodecBatch")) {
		op_codec_batch(op, ev);
	} else if (!strcmp(name, "AlgStr")) {
		/* jwt_str_alg / jwt_alg_str round trip */
		const char *s = jstr(op, "s", "~");
		jwt_alg_t a = jwt_str_alg(is_none(s) ? NULL : s);
		json_object_set_new(ev, "alg", json_string(alg_name(a)));
	} else
		die("unknown op %s", name);
	if (fault_mode && alloc_failed) {
		json_object_set_new(ev, "fault_site", json_string(fault_site));
		json_object_set_new(ev, "fault_size", json_integer((json_int_t)fault_size));
		json_object_set_new(ev, "fault_stack", json_string(fault_stack));
	}
	emit(ev);
	json_decref(ev);
}

/* ================================================================= main */
/* the lowest free descriptor: it moves when a descriptor opened during the case is still open at its end */
static int low_fd(void)
{
	int fd = dup(0);
	if (fd >= 0) close(fd);
	return fd;
}

static void run_case(json_t *c, long idx)
{
	size_t i; json_t *op;
	json_t *first = json_array_get(c, 0);
	const char *id = first && json_is_string(first) ? json_string_value(first) : "?";
	json_t *ev;
	int fd0 = low_fd();
	long trk0 = trk_live, trk1;
	cur_case = id; cur_op = -1;
	case_rng = seed * 0x9e3779b97f4a7c15ULL ^ fnv(id);
	drv_now = 1700000000;
	if (track_alloc) jwt_set_alloc(drv_malloc, drv_free);
	jwt_set_crypto_ops("openssl");
	stale_turn = 0;
	fill_turn = 0;
	drv_tick = 0;
	ev = json_pack("{s:s,s:s,s:I}", "e", "Case", "id", id, "n", (json_int_t)idx);
	emit(ev); json_decref(ev);
	alarm(call_timeout);
	json_array_foreach(c, i, op) {
		if (i == 0 && json_is_string(op)) continue;
		cur_op = (int)i;
		run_op(op);
	}
	cur_op = 9999;
	free_all_objects();	/* still under the watchdog: releasing the objects is library code too */
	trk1 = trk_live;
	alarm(0);
	/* restore process-wide state */
	jwt_set_crypto_ops("openssl");
	ev = json_pack("{s:s}", "e", "EndCase");
	json_object_set_new(ev, "fd", json_integer(low_fd() - fd0));
	/* blocks the library obtained from the application's allocator during the case and never gave back to it */
	if (track_alloc) json_object_set_new(ev, "trk", json_integer((json_int_t)(trk1 - trk0)));
#ifdef DRV_ASAN
	if (leak_every && (idx % leak_every) == leak_every - 1)
		json_object_set_new(ev, "leak", json_integer(__lsan_do_recoverable_leak_check() ? 1 : 0));
#endif
	emit(ev); json_decref(ev);
}

static int fault_leak;
static const char *fault_only;	/* --fault-only <op>: allocation faults are counted and injected inside operations of that name only */
#define FAULT_GATE(op) (!fault_only || !strcmp(jstr(op, "op", "?"), fault_only))
static int is_config_op(const char *n)
{
	static const char *t[] = {"CSetKey", "BSetKey", "CClaimSet", "CClaimDel", "CLeeway", "BOffset", "CSetCb", "BSetCb", "BMap", "BIat", NULL};
	for (int i = 0; t[i]; i++) if (!strcmp(n, t[i])) return 1;
	return 0;
}

/* C17: run the case once counting the library's allocation requests, then once
 * per request index k with that request failing, each in a forked child.
 * Events: Case, <base events>, then per k: FaultRun{k,n}, <events up to and
 * including the operation in which the fault fired>, FaultEnd{fired}. */
static void run_case_fault(json_t *c, long idx)
{
	size_t i; json_t *op;
	json_t *first = json_array_get(c, 0);
	const char *id = first && json_is_string(first) ? json_string_value(first) : "?";
	json_t *ev;
	long n;
	cur_case = id; cur_op = -1;
	case_rng = seed * 0x9e3779b97f4a7c15ULL ^ fnv(id);
	drv_now = 1700000000;
	jwt_set_crypto_ops("openssl");
	jwt_set_alloc(drv_malloc, drv_free);
	stale_turn = 0;
	fill_turn = 0;
	drv_tick = 0;
	ev = json_pack("{s:s,s:s,s:I}", "e", "Case", "id", id, "n", (json_int_t)idx);
	emit(ev); json_decref(ev);
	fault_mode = 1; alloc_fail_at = -1; alloc_count = 0; alloc_failed = 0;
	alarm(call_timeout);
	json_array_foreach(c, i, op) {
		if (i == 0 && json_is_string(op)) continue;
		cur_op = (int)i;
		fault_mode = FAULT_GATE(op);
		run_op(op);
	}
	n = alloc_count;
	fault_mode = 0;
	free_all_objects();
	alarm(0);
	/* what the rest of the case does when a configuration call did NOT take effect: the case once more without
	 * that call, for every configuration call in it (the state a failed call may leave is the old or the new one) */
	json_array_foreach(c, i, op) {
		pid_t pid; int st;
		if (i == 0 && json_is_string(op)) continue;
		if (fault_only || !is_config_op(jstr(op, "op", "?")) || i + 1 >= json_array_size(c)) continue;
		ev = json_pack("{s:s,s:I}", "e", "SkipRun", "skip", (json_int_t)i);
		emit(ev); json_decref(ev);
		pid = fork();
		if (pid == 0) {
			size_t j; json_t *op2;
			case_rng = seed * 0x9e3779b97f4a7c15ULL ^ fnv(id); drv_now = 1700000000;
			jwt_set_crypto_ops("openssl");
			alarm(call_timeout);
			json_array_foreach(c, j, op2) {
				if ((j == 0 && json_is_string(op2)) || j == i) continue;
				cur_op = (int)j;
				run_op(op2);
			}
			cur_op = 9999;
			free_all_objects();
			alarm(0);
			_exit(0);
		}
		if (pid < 0) die("fork");
		waitpid(pid, &st, 0);
		if (!(WIFEXITED(st) && WEXITSTATUS(st) == 0)) emit_abort("skiprun-died");
	}
	for (long k = 0; k < n; k++) {
		pid_t pid;
		int st;
		ev = json_pack("{s:s,s:I,s:I}", "e", "FaultRun", "k", (json_int_t)k, "n", (json_int_t)n);
		emit(ev); json_decref(ev);
		pid = fork();
		if (pid == 0) {
			uint64_t rs = seed * 0x9e3779b97f4a7c15ULL ^ fnv(id);
			case_rng = rs; drv_now = 1700000000;
			jwt_set_crypto_ops("openssl");
			fault_mode = 1; alloc_fail_at = k; alloc_count = 0; alloc_failed = 0;
			alarm(call_timeout);
			json_array_foreach(c, i, op) {
				if (i == 0 && json_is_string(op)) continue;
				cur_op = (int)i;
				if (!post_fop) fault_mode = FAULT_GATE(op);
				run_op(op);
				if (alloc_failed && !post_fop) {
					/* after a configuration call that met the fault the rest of the case runs without faults:
					 * what the object then does is what its old or its new configuration does */
					if (!is_config_op(jstr(op, "op", "?"))) break;
					post_fop = (int)i;
					fault_mode = 0;
				}
			}
			post_fop = 0;
			cur_op = 9999;
			fault_mode = 0;
			free_all_objects();
			alarm(0);
			ev = json_pack("{s:s,s:i}", "e", "FaultEnd", "fired", alloc_failed);
#ifdef DRV_ASAN
			/* --fault-leak: what the run with the failing allocation left behind when all its objects are released */
			if (fault_leak) json_object_set_new(ev, "leak", json_integer(__lsan_do_recoverable_leak_check() ? 1 : 0));
#endif
			emit(ev); json_decref(ev);
			_exit(0);
		}
		if (pid < 0) die("fork");
		waitpid(pid, &st, 0);
		if (!(WIFEXITED(st) && (WEXITSTATUS(st) == 0 || WEXITSTATUS(st) == 23 || WEXITSTATUS(st) == 4 || WEXITSTATUS(st) == 5))) {
			char why[64];
			snprintf(why, sizeof why, "child-died-%s%d", WIFSIGNALED(st) ? "sig" : "rc", WIFSIGNALED(st) ? WTERMSIG(st) : WEXITSTATUS(st));
			emit_abort(why);
		}
	}
	jwt_set_crypto_ops("openssl");
	ev = json_pack("{s:s}", "e", "EndCase");
	emit(ev); json_decref(ev);
}

int main(int argc, char **argv)
{
	const char *script = NULL, *out = NULL;
	long skip = 0, limit = -1, idx = 0;
	int do_fault = 0;
	const char *mode_export = NULL, *mode_arg = NULL, *mode_gen = NULL, *mode_zero = NULL;
	FILE *f;
	char *line = NULL; size_t cap = 0; ssize_t n;
	struct sigaction sa;
	(void)tl_dummy;
	for (int i = 1; i < argc; i++) {
		if (!strcmp(argv[i], "--script") && i + 1 < argc) script = argv[++i];
		else if (!strcmp(argv[i], "--out") && i + 1 < argc) out = argv[++i];
		else if (!strcmp(argv[i], "--keys") && i + 1 < argc) keys_dir = argv[++i];
		else if (!strcmp(argv[i], "--tmp") && i + 1 < argc) tmp_dir = argv[++i];
		else if (!strcmp(argv[i], "--seed") && i + 1 < argc) seed = strtoull(argv[++i], NULL, 10);
		else if (!strcmp(argv[i], "--skip") && i + 1 < argc) skip = atol(argv[++i]);
		else if (!strcmp(argv[i], "--limit") && i + 1 < argc) limit = atol(argv[++i]);
		else if (!strcmp(argv[i], "--leak-every") && i + 1 < argc) leak_every = atoi(argv[++i]);
		else if (!strcmp(argv[i], "--timeout") && i + 1 < argc) call_timeout = atoi(argv[++i]);
		else if (!strcmp(argv[i], "--fault")) do_fault = 1;
		else if (!strcmp(argv[i], "--fault-only") && i + 1 < argc) fault_only = argv[++i];
		else if (!strcmp(argv[i], "--fault-leak")) fault_leak = 1;
		else if (!strcmp(argv[i], "--track-alloc")) track_alloc = 1;
		else if (!strcmp(argv[i], "--export-jwk") && i + 1 < argc) { mode_export = "jwk"; mode_arg = argv[++i]; }
		else if (!strcmp(argv[i], "--export-key") && i + 1 < argc) { mode_export = "key"; mode_arg = argv[++i]; }
		else if (!strcmp(argv[i], "--genpem") && i + 2 < argc) { mode_gen = argv[++i]; mode_arg = argv[++i]; }
		else if (!strcmp(argv[i], "--zero") && i + 1 < argc) mode_zero = argv[++i];
		else die("usage: jwtdrv --script F --out F [--keys D] [--seed N] [--skip N] [--limit N] [--leak-every N]");
	}
	if (mode_export) {
		/* print a key descriptor as JWKS / PEM / raw oct bytes (the driver's own exporter) */
		json_error_t e;
		json_t *kd = json_loads(mode_arg, 0, &e);
		if (!kd) die("bad descriptor");
		if (!strcmp(mode_export, "jwk")) {
			json_t *j = export_jwk(kd), *top = json_pack("{s:[o]}", "keys", j);
			char *t = json_dumps(top, JSON_COMPACT);
			puts(t);
		} else if (!strcmp(jstr(kd, "kty", "~"), "oct")) {
			size_t len = (size_t)jint(kd, "bits", 0) / 8;
			unsigned char *b = malloc(len + 1);
			oct_bytes(b, len, jstr(kd, "var", "a"));
			fwrite(b, 1, len, stdout);
		} else {
			EVP_PKEY *k = pool_get(jstr(kd, "base", "~"));
			if (jint(kd, "priv", 0)) PEM_write_PrivateKey(stdout, k, NULL, NULL, 0, NULL, NULL);
			else PEM_write_PUBKEY(stdout, k);
		}
		return 0;
	}
	if (mode_gen) {
		/* print a fresh private key; "zx"/"zy"/"zd": repeat until that EC component has a leading zero byte */
		for (int tries = 0; tries < 200000; tries++) {
			EVP_PKEY *k = fresh_key(mode_gen, atoi(mode_arg ? mode_arg : "2048"));
			int ok = 1;
			if (mode_zero && (EVP_PKEY_id(k) == EVP_PKEY_ED25519 || EVP_PKEY_id(k) == EVP_PKEY_ED448)) {
				/* OKP: x and d are octet strings; "zx"/"zd": the first octet is 0 */
				unsigned char raw[64]; size_t rl = sizeof raw;
				ok = (!strcmp(mode_zero, "zx") ? EVP_PKEY_get_raw_public_key(k, raw, &rl) : EVP_PKEY_get_raw_private_key(k, raw, &rl)) == 1
				     && rl > 0 && raw[0] == 0;
			} else if (mode_zero) {
				BIGNUM *bn = NULL;
				int w = (EVP_PKEY_get_bits(k) + 7) / 8;
				EVP_PKEY_get_bn_param(k, !strcmp(mode_zero, "zx") ? OSSL_PKEY_PARAM_EC_PUB_X : !strcmp(mode_zero, "zy") ? OSSL_PKEY_PARAM_EC_PUB_Y : OSSL_PKEY_PARAM_PRIV_KEY, &bn);
				ok = bn && BN_num_bytes(bn) < w;
				BN_free(bn);
			}
			if (ok) { PEM_write_PrivateKey(stdout, k, NULL, NULL, 0, NULL, NULL); return 0; }
			EVP_PKEY_free(k);
		}
		die("no such key found");
	}
	if (!script) die("need --script");
	snprintf(startup_ops, sizeof startup_ops, "%s", jwt_get_crypto_ops());
	if (out) {
		out_fd = open(out, O_WRONLY | O_CREAT | O_APPEND, 0644);
		if (out_fd < 0) die("open %s: %s", out, strerror(errno));
	}
	memset(&sa, 0, sizeof sa);
	sa.sa_handler = on_signal;
	sigaction(SIGALRM, &sa, NULL);
#ifdef DRV_ASAN
	__sanitizer_set_death_callback(on_san_death);
#else
	sigaction(SIGSEGV, &sa, NULL); sigaction(SIGABRT, &sa, NULL); sigaction(SIGBUS, &sa, NULL); sigaction(SIGFPE, &sa, NULL);
#endif
	f = fopen(script, "r");
	if (!f) die("open %s", script);
	while ((n = getline(&line, &cap, f)) > 0) {
		json_error_t e;
		json_t *c;
		if (idx < skip) { idx++; continue; }
		if (limit >= 0 && idx >= skip + limit) break;
		c = json_loads(line, 0, &e);
		if (!c || !json_is_array(c)) die("script line %ld: %s", idx, e.text);
		if (do_fault) run_case_fault(c, idx); else run_case(c, idx);
		json_decref(c);
		idx++;
	}
	free(line);
	fclose(f);
	{
		json_t *ev = json_pack("{s:s,s:I}", "e", "End", "cases", (json_int_t)(idx - skip));
#ifdef DRV_ASAN
		json_object_set_new(ev, "leak", json_integer(__lsan_do_recoverable_leak_check() ? 1 : 0));
#endif
		emit(ev); json_decref(ev);
	}
	for (int i = 0; i < npool; i++) { EVP_PKEY_free(pool[i].pkey); free(pool[i].pem_pub); }
	return 0;
}
